//! C20 outcome-stream emitter. Compiled into every feature variant of the harness; it only uses
//! API that exists in every build. For a seeded corpus of (definition, vector) pairs it prints
//! one line per execution: the normalised outcome (value, monochrome help text, error text).
//! `bin/check C20` diffs the streams of the variants.

use crate::build::build_options;
use crate::deriv::{sentence, DashDash, Gen, OrderStyle, SpellStyle};
use crate::gen::{GenOpts, Pool};
use crate::json::{show_argv, J};
use crate::outcome::{run, Outcome};
use crate::rng::Rng;
use crate::spec::*;
use std::io::Write;

const HELPS: &[&str] = &[
    "plain help",
    "first paragraph\n\nsecond paragraph with more words in it",
    "intro\n\n```text\nfenced line one\nfenced   line two\n```\n\nafter the fence",
    "intro\n\n    indented code one\n    indented code two\n\nafter the code",
    "line one\n line two after a hard break\nline three soft",
    "```\nfence at the very start\n```",
    "ends with fence\n\n```\nlast\n```\n",
    "intro\n\n```text\nfenced line one\n\nfenced line three after an empty one\n```\n\nafter the fence",
    "two fences\n\n```\na\n\n\nb\n```\n\n```\nc\n```",
    // built with the Doc API (`{{doc:X}}` becomes a nested document): several text tokens, a
    // line break inside the first one, characters of more than one byte
    "\u{e9}\nsecond line {{lit:x}} tail",
    "\u{43f}\u{435}\u{440}\u{432}\u{430}\u{44f}\n\u{432}\u{442}\u{43e}\u{440}\u{430}\u{44f} {{lit:lit}} \u{445}\u{432}\u{43e}\u{441}\u{442}",
    "one line {{doc:nested}} and more of it",
    // one long line of multi-byte characters (a completion description may get shortened)
    "\u{44f}\u{44f}\u{44f}\u{44f}\u{44f}\u{44f}\u{44f}\u{44f}\u{44f}\u{44f}\u{44f}\u{44f}\u{44f}\u{44f}\u{44f}\u{44f}\u{44f}\u{44f}\u{44f}\u{44f}\u{44f}\u{44f}\u{44f}\u{44f}\u{44f}\u{44f}\u{44f}\u{44f}\u{44f}\u{44f}\u{44f}\u{44f}\u{44f}\u{44f}\u{44f}\u{44f}\u{44f}\u{44f}\u{44f}\u{44f}\u{44f}\u{44f}\u{44f}\u{44f}\u{44f}\u{44f}\u{44f}\u{44f}\u{44f}\u{44f}\u{44f}\u{44f}\u{44f}\u{44f}\u{44f}\u{44f}\u{44f}\u{44f}\u{44f}\u{44f}",
    "\u{65e5}\u{672c}\u{8a9e}\u{65e5}\u{672c}\u{8a9e}\u{65e5}\u{672c}\u{8a9e}\u{65e5}\u{672c}\u{8a9e}\u{65e5}\u{672c}\u{8a9e}\u{65e5}\u{672c}\u{8a9e}\u{65e5}\u{672c}\u{8a9e}\u{65e5}\u{672c}\u{8a9e}\u{65e5}\u{672c}\u{8a9e}\u{65e5}\u{672c}\u{8a9e}\u{65e5}\u{672c}\u{8a9e}\u{65e5}\u{672c}\u{8a9e}\u{65e5}\u{672c}\u{8a9e}\u{65e5}\u{672c}\u{8a9e} tail",
];

fn opts() -> GenOpts {
    let mut o = GenOpts::general();
    o.cmd_depth = 1;
    o.max_named = 5;
    o.completers = true;
    o.shell_completers = true;
    o.pure_fail = true;
    o.adjacent_cmds = true;
    o
}

pub fn decorate(s: &mut Spec, rng: &mut Rng) {
    match s {
        Spec::Item(i) => {
            if rng.chance(1, 3) {
                i.help = Some(format!("{} H{}", rng.pick(HELPS), i.id));
            }
        }
        Spec::Wrap { w, inner, .. } => {
            if let W::GroupHelp(h) = w {
                if rng.chance(1, 2) {
                    *h = format!("{} G", rng.pick(HELPS));
                }
            }
            decorate(inner, rng);
        }
        Spec::Seq(xs) | Spec::Alt(xs) | Spec::Adj(xs) => {
            for x in xs {
                decorate(x, rng);
            }
        }
        Spec::Cmd(c) => {
            if rng.chance(1, 2) {
                c.opts.descr = Some(format!("{} D{}", rng.pick(HELPS), c.id));
            }
            decorate(&mut c.opts.root, rng);
        }
        _ => {}
    }
}

/// `.fallback(x).guard(..)` / `.fallback_with(..).parse(..)` where the check rejects the supplied
/// value: the failure message quotes the item the parser looked at last, which must not depend on
/// bookkeeping that only exists with the `autocomplete` feature
fn strict_steps(s: &mut Spec, rng: &mut Rng) {
    match s {
        Spec::Wrap { w, id, inner } => {
            strict_steps(inner, rng);
            if matches!(w, W::Fallback | W::FallbackWithOk) && rng.chance(1, 2) {
                let step = if rng.chance(2, 3) { W::Guard } else { W::ParseStep };
                let nid = crate::build::STRICT_STEP_BASE + *id;
                let old = std::mem::replace(s, Spec::Pure(0));
                *s = Spec::wrap(step, nid, old);
            }
        }
        Spec::Seq(xs) | Spec::Alt(xs) | Spec::Adj(xs) => {
            for x in xs {
                strict_steps(x, rng);
            }
        }
        Spec::Cmd(c) => strict_steps(&mut c.opts.root, rng),
        _ => {}
    }
}

fn twin_a_command(s: &mut Spec) -> bool {
    match s {
        Spec::Alt(xs) => {
            let at = xs.iter().position(|x| matches!(x, Spec::Cmd(_)));
            if let Some(at) = at {
                let mut twin = xs[at].clone();
                if let Spec::Cmd(c) = &mut twin {
                    c.opts.footer = Some("footer of the second branch".to_string());
                }
                xs.insert(at + 1, twin);
                return true;
            }
            xs.iter_mut().any(twin_a_command)
        }
        Spec::Seq(xs) | Spec::Adj(xs) => xs.iter_mut().any(twin_a_command),
        Spec::Wrap { inner, .. } => twin_a_command(inner),
        _ => false,
    }
}

pub fn corpus_case(seed: u64, case: u64) -> (OptSpec, Vec<Vec<Vec<u8>>>) {
    let mut rng = Rng::for_case(seed, "C20", case, 0);
    let mut spec = {
        let o = opts();
        let mut p = Pool::new(&mut rng, o);
        let mut spec = p.level(1);
        // one short letter that is both a flag and an argument: ambiguous clusters
        if p.rng.chance(1, 3) {
            p.inject_ambiguous(&mut spec);
        }
        spec
    };
    decorate(&mut spec.root, &mut rng);
    if rng.chance(1, 6) {
        // the same command reachable from two branches, with one difference that only the
        // documentation generators look at (its footer)
        twin_a_command(&mut spec.root);
    }
    if rng.chance(1, 2) {
        strict_steps(&mut spec.root, &mut rng);
    }
    if rng.chance(1, 2) {
        spec.descr = Some(format!("{} D0", rng.pick(HELPS)));
    }
    // `cargo asm ..`: the name of the cargo subcommand in front is skipped when it is there
    let cargo = rng.chance(1, 8);
    if cargo {
        spec.cargo = Some("asm".to_string());
    }
    let alpha = alphabet_lite(&spec);
    let mut vectors: Vec<Vec<Vec<u8>>> = Vec::new();
    for vi in 0..12 {
        let mut v: Vec<Vec<u8>> = if vi % 2 == 0 {
            let mut g = Gen::new(&mut rng);
            g.hostile = vi % 4 == 0;
            sentence(
                &spec.root,
                &mut g,
                OrderStyle::Random,
                DashDash::Random,
                SpellStyle::Random,
            )
            .map(|x| x.2.argv)
            .unwrap_or_default()
        } else {
            let mut v = Vec::new();
            for _ in 0..rng.below(6) {
                v.push(rng.pick(&alpha).clone());
            }
            v
        };
        match rng.below(8) {
            0 => v.push(Vec::new()),
            1 => v.push(b"-".to_vec()),
            2 => v.push(b"--".to_vec()),
            3 => v.insert(0, b"--help".to_vec()),
            4 => {
                v.push(b"--help".to_vec());
                v.push(b"--help".to_vec());
            }
            5 => v.insert(rng.below(v.len() + 1), b"-qwx".to_vec()),
            _ => {}
        }
        if cargo {
            // the command word in front, behind the first item, or at the end
            match rng.below(4) {
                0 => v.insert(0, b"asm".to_vec()),
                1 => v.insert(1.min(v.len()), b"asm".to_vec()),
                2 => v.push(b"asm".to_vec()),
                _ => {}
            }
        }
        // the completion marker is outside the quantifier
        v.retain(|a| !a.starts_with(b"--bpaf-complete"));
        vectors.push(v);
    }
    (spec, vectors)
}

/// letters declared both as a short flag and as a short argument somewhere in the definition
fn ambiguous_letters(o: &OptSpec) -> Vec<char> {
    let mut items = Vec::new();
    o.root.all_items(&mut items);
    let mut flags = Vec::new();
    let mut args = Vec::new();
    for i in items {
        if i.is_flag() {
            flags.extend(i.names.shorts.iter().copied());
        } else if i.is_arg() {
            args.extend(i.names.shorts.iter().copied());
        }
    }
    flags.into_iter().filter(|c| args.contains(c)).collect()
}

/// things a user could type, without needing the `full` feature's helpers
fn alphabet_lite(o: &OptSpec) -> Vec<Vec<u8>> {
    let mut items = Vec::new();
    o.root.all_items(&mut items);
    let mut out: Vec<Vec<u8>> = vec![
        b"word".to_vec(),
        b"12".to_vec(),
        b"--".to_vec(),
        b"-".to_vec(),
        Vec::new(),
        b"--zzforeign".to_vec(),
        b"-qw".to_vec(),
        b"-qx=1".to_vec(),
        b"-wq".to_vec(),
    ];
    for i in items {
        for c in &i.names.shorts {
            out.push(format!("-{}", c).into_bytes());
            out.push(format!("-{}v", c).into_bytes());
        }
        for l in &i.names.longs {
            out.push(format!("--{}", l).into_bytes());
            out.push(format!("--{}=7", l).into_bytes());
        }
    }
    let mut cmds = Vec::new();
    o.root.level_cmds(&mut cmds);
    for c in cmds {
        out.push(c.names[0].clone().into_bytes());
    }
    out
}

/// bytes `ParseFailure::print_message` writes to file descriptor 2 for this line (monochrome: the
/// descriptor is a file while it is captured)
fn printed_failure(parser: &bpaf::OptionParser<V>, argv: &[Vec<u8>]) -> Option<Vec<u8>> {
    use std::os::unix::io::AsRawFd;
    extern "C" {
        fn dup(fd: i32) -> i32;
        fn dup2(a: i32, b: i32) -> i32;
        fn close(fd: i32) -> i32;
    }
    let os = crate::outcome::to_os(argv);
    let failure = match crate::outcome::guarded(crate::outcome::DEFAULT_FUEL, || {
        parser.run_inner(bpaf::Args::from(os.as_slice()))
    })
    .0
    {
        Ok(Err(f @ bpaf::ParseFailure::Stderr(_))) => f,
        _ => return None,
    };
    let path = std::env::temp_dir().join(format!("bpaf-verif-printed-{}", std::process::id()));
    let file = std::fs::File::create(&path).ok()?;
    let res = unsafe {
        let saved = dup(2);
        if saved < 0 {
            return None;
        }
        dup2(file.as_raw_fd(), 2);
        let r = crate::outcome::guarded(crate::outcome::DEFAULT_FUEL, || failure.print_message(100)).0;
        dup2(saved, 2);
        close(saved);
        r
    };
    drop(file);
    let bytes = std::fs::read(&path).ok();
    let _ = std::fs::remove_file(&path);
    res.ok()?;
    bytes
}

pub fn cmd_emit(args: &[String]) -> i32 {
    let get = |k: &str| {
        args.iter()
            .position(|a| a == k)
            .and_then(|i| args.get(i + 1).cloned())
    };
    let seed: u64 = get("--seed").map_or(0, |s| s.parse().unwrap());
    let cases: u64 = get("--cases").map_or(100, |s| s.parse().unwrap());
    let shard = get("--shard").unwrap_or_else(|| "0/1".into());
    let (k, n) = shard.split_once('/').unwrap();
    let (k, n): (u64, u64) = (k.parse().unwrap(), n.parse().unwrap());
    let out = get("--out").expect("--out");
    let only: Option<u64> = get("--only-case").map(|s| s.parse().unwrap());
    crate::outcome::install_panic_hook();
    let mut f = std::io::BufWriter::new(std::fs::File::create(&out).expect("out file"));
    let mut execs = 0u64;
    let mut classes = std::collections::BTreeMap::new();
    let idx: Box<dyn Iterator<Item = u64>> = match only {
        Some(c) => Box::new(std::iter::once(c)),
        None => Box::new((0..cases).filter(move |i| i % n == k)),
    };
    for case in idx {
        let (spec, vectors) = corpus_case(seed, case);
        let parser = build_options(&spec);
        if only.is_some() {
            eprintln!("definition: {}", spec.pretty());
        }
        for (vi, v) in vectors.iter().enumerate() {
            let calls_before = crate::build::COMPLETER_CALLS.load(std::sync::atomic::Ordering::SeqCst);
            let o = run(&parser, v);
            // user code handed to `complete` is for completion requests: on these lines (none
            // carries the marker) a build with the feature calls it as often as one without
            let completer_calls =
                crate::build::COMPLETER_CALLS.load(std::sync::atomic::Ordering::SeqCst) - calls_before;
            execs += 1;
            *classes.entry(o.class()).or_insert(0u64) += 1;
            // what a real process prints for a failure goes through `print_message`, which adds
            // the `Error: ` prefix feature by feature: captured from the stderr descriptor
            let printed = if matches!(o, Outcome::Stderr { .. }) {
                printed_failure(&parser, v)
            } else {
                None
            };
            let text = match &o {
                Outcome::Stderr { text } if printed.is_some() => format!(
                    "Stderr({:?}) printed({:?})",
                    text,
                    String::from_utf8_lossy(printed.as_deref().unwrap_or_default())
                ),
                Outcome::Value(x) => format!("Ok({})", x.show()),
                Outcome::Stdout { text, full } => format!("Stdout({},{:?})", full, text),
                Outcome::Stderr { text } => format!("Stderr({:?})", text),
                Outcome::Completion(t) => format!("Completion({:?})", t),
                Outcome::Panic(m) => format!("Panic({:?})", m),
                Outcome::FuelExhausted => "Fuel".to_string(),
            };
            let text = if completer_calls > 0 {
                format!("{} completer-called({})", text, completer_calls)
            } else {
                text
            };
            // structured facts about the case (from definition and vector only), used to key
            // known findings; they are not part of what is compared
            let mut facts: Vec<&str> = Vec::new();
            let amb = ambiguous_letters(&spec);
            if v.iter().any(|a| {
                a.len() > 2
                    && a[0] == b'-'
                    && a[1] != b'-'
                    && !a.contains(&b'=')
                    && std::str::from_utf8(&a[1..]).map_or(false, |t| {
                        let cs: Vec<char> = t.chars().collect();
                        // bpaf reports ambiguity when it reaches an ambiguous letter while
                        // every letter before it is a declared flag
                        cs.iter().any(|c| amb.contains(c))
                    })
            }) {
                facts.push("ambiguous-cluster");
            }
            if matches!(o, Outcome::Stdout { .. }) && spec.pretty().contains("```") {
                facts.push("help-with-code-fence");
            }
            let line = J::obj()
                .set("case", case)
                .set("vector", vi)
                .set("argv", show_argv(v))
                .set("facts", J::Arr(facts.iter().map(|f| J::from(*f)).collect()))
                .set("outcome", text);
            let _ = writeln!(f, "{}", line.render());
        }
    }
    let _ = f.flush();
    let summary = J::obj().set("executions", execs).set(
        "classes",
        J::Obj(
            classes
                .iter()
                .map(|(k, v)| (k.to_string(), J::from(*v)))
                .collect(),
        ),
    );
    println!("{}", summary.render());
    0
}


/// Witnesses of the feature-dependent findings; available in every build variant.
/// Returns true when the defect shows in *this* build.
pub fn witness(name: &str) -> Option<bool> {
    let item = |id: Id, names: Names, leaf: Leaf| {
        Spec::Item(Item {
            id,
            names,
            help: None,
            leaf,
        })
    };
    Some(match name {
        // no-autocomplete builds dropped the ambiguity error and the rest of the line
        "ambiguous_cluster_without_autocomplete" => {
            let o = OptSpec::plain(Spec::Seq(vec![
                item(1, Names::short('q'), Leaf::Switch),
                Spec::wrap(
                    W::Optional { catch: false },
                    3,
                    item(
                        2,
                        Names::short('q'),
                        Leaf::Arg {
                            ty: Ty::Str,
                            metavar: "M".into(),
                            adjacent: false,
                        },
                    ),
                ),
                Spec::wrap(
                    W::Many { catch: false },
                    5,
                    item(
                        4,
                        Names::default(),
                        Leaf::Pos {
                            ty: Ty::Str,
                            metavar: "P".into(),
                            strict: Strict::Any,
                        },
                    ),
                ),
            ]));
            let p = build_options(&o);
            let out = run(&p, &[b"-qq".to_vec(), b"x".to_vec(), b"y".to_vec()]);
            !matches!(out, Outcome::Stderr { text } if text.contains("both an option and an option-argument"))
        }
        // without docgen a fenced block in help text was re-flowed into one paragraph
        "code_fence_without_docgen" => {
            let mut it = Item {
                id: 1,
                names: Names::long("alpha"),
                help: Some("intro\n\n```text\nline one\nline   two\n```\n\nafter".to_string()),
                leaf: Leaf::Switch,
            };
            it.id = 1;
            let o = OptSpec::plain(Spec::Seq(vec![Spec::Item(it)]));
            let p = build_options(&o);
            let out = run(&p, &[b"--help".to_vec(), b"--help".to_vec()]);
            // fenced lines are kept one per line when the fence is honoured
            !matches!(out, Outcome::Stdout { text, .. } if text.contains("line one\n") && text.contains("line   two\n"))
        }
        _ => return None,
    })
}
