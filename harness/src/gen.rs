//! Random parser definitions (Spec generators), per fragment.

use crate::rng::Rng;
use crate::spec::*;
use std::collections::HashSet;

#[derive(Clone, Debug)]
pub struct GenOpts {
    pub max_named: usize,
    pub max_pos: usize,
    /// 0 - no subcommands
    pub cmd_depth: usize,
    pub alts: bool,
    pub adjacent: bool,
    pub hidden: bool,
    pub nonascii: bool,
    pub strict: bool,
    pub aliases: bool,
    /// guard / parse / map wrappers
    pub value_wrappers: bool,
    /// hide_usage / custom_usage / group_help / with_group_help
    pub decor: bool,
    pub completers: bool,
    pub shell_completers: bool,
    pub info: bool,
    pub types: Vec<Ty>,
    pub adjacent_args: bool,
    pub catch: bool,
    pub help_texts: bool,
    pub env: bool,
    /// some env-backed items have no name on the command line at all
    pub env_only: bool,
    pub pure_fail: bool,
    /// positional and command at the same level
    pub pos_and_cmd: bool,
    /// `construct!([cmd, .., words])`: commands and positionals as alternatives of one level
    pub cmd_or_words: bool,
    /// `--color=WHEN | --color`: alternatives that share names and help, differ in kind/metavar
    pub twins: bool,
    /// `fallback_to_usage()` on some levels
    pub usage_fallback: bool,
    /// `any` / `literal` parsers, `.anywhere()` (only where no expectation about values is made)
    pub any: bool,
    /// adjacent groups may end in an optional word member (`--point X [Y]`)
    pub adjacent_optional_words: bool,
    /// an unrestricted positional may be declared after strict ones (`strict.many()`, `REST.many()`)
    pub any_after_strict: bool,
    /// an adjacent group may contain another adjacent group as its last member
    pub adjacent_in_adjacent: bool,
    /// custom help/version flag names
    pub custom_help: bool,
    /// chains of `adjacent()` commands (`cmd1 --a cmd2 --b cmd1 ..`)
    pub adjacent_cmds: bool,
    /// a chain of adjacent commands may be reduced with `last()`
    pub adjacent_cmd_last: bool,
    /// a branch of a (non-repeated) choice may be an adjacent group `--point X Y`
    pub adjacent_branch: bool,
    /// `cmd.fallback(..)` / `cmd.fallback_with(..)`: a subcommand with a default
    pub cmd_fallback: bool,
    /// `positional(..).hide()` under the optional/repeating wrapper
    pub hidden_positionals: bool,
    /// a command of an adjacent chain may end with a typed word under `fallback`
    pub adjacent_cmd_default_word: bool,
    /// `command(..).hide()`: a subcommand left out of the help is a subcommand all the same
    pub hidden_cmds: bool,
    /// `command(..).optional().catch()`: an optional subcommand whose failures are recovered from
    pub cmd_catch: bool,
}

impl GenOpts {
    pub fn conventional() -> GenOpts {
        GenOpts {
            max_named: 8,
            max_pos: 3,
            cmd_depth: 2,
            alts: false,
            adjacent: false,
            hidden: false,
            nonascii: false,
            strict: false,
            aliases: true,
            value_wrappers: false,
            decor: false,
            completers: false,
            shell_completers: false,
            info: false,
            types: vec![Ty::Str, Ty::U32, Ty::Os, Ty::Path],
            adjacent_args: false,
            catch: false,
            help_texts: true,
            env: false,
            env_only: true,
            pure_fail: false,
            pos_and_cmd: false,
            cmd_or_words: false,
            twins: false,
            usage_fallback: false,
            any: false,
            adjacent_optional_words: false,
            any_after_strict: false,
            adjacent_in_adjacent: false,
            custom_help: false,
            adjacent_cmds: false,
            adjacent_cmd_last: false,
            adjacent_branch: false,
            cmd_fallback: false,
            hidden_positionals: false,
            adjacent_cmd_default_word: false,
            hidden_cmds: false,
            cmd_catch: false,
        }
    }
    pub fn general() -> GenOpts {
        GenOpts {
            max_named: 6,
            max_pos: 3,
            cmd_depth: 2,
            alts: true,
            adjacent: true,
            hidden: true,
            nonascii: true,
            strict: true,
            aliases: true,
            value_wrappers: true,
            decor: true,
            completers: false,
            shell_completers: false,
            info: true,
            types: vec![Ty::Str, Ty::U32, Ty::Os, Ty::Path, Ty::I64],
            adjacent_args: true,
            catch: false,
            help_texts: true,
            env: false,
            env_only: true,
            pure_fail: false,
            pos_and_cmd: false,
            cmd_or_words: false,
            twins: false,
            usage_fallback: false,
            any: false,
            adjacent_optional_words: false,
            any_after_strict: false,
            adjacent_in_adjacent: false,
            custom_help: false,
            adjacent_cmds: false,
            adjacent_cmd_last: false,
            adjacent_branch: false,
            cmd_fallback: false,
            hidden_positionals: false,
            adjacent_cmd_default_word: false,
            hidden_cmds: false,
            cmd_catch: false,
        }
    }
}

// no h/V (help, version), no Z (reserved as the undeclared short name)
// (two digits among them: `-2` is a name like any other once it is declared)
const SHORTS: &str = "abcdefgijklmnopqrstuvwxyzABCDEFGIJKLMNOPQRSTUWXY27";
const NONASCII_SHORTS: &[char] = &['é', 'ß', 'я', '日', 'ç'];
const LONGS: &[&str] = &[
    "alpha", "bravo", "charlie", "delta", "echo", "fox-trot", "golf", "hotel", "india", "juliet",
    "kilo", "lima", "mike", "nov_ember", "oscar", "papa", "quebec", "romeo", "sierra", "tango",
    "uniform", "victor", "whiskey", "xray", "yankee", "zulu", "verbose", "output", "input",
    "dry-run", "level", "jobs", "x", "no-color", "target2",
];
// names wider than the 24-column tab stop of the help layout and of the bash/zsh candidate
// column; the first two agree in their first 24 characters (with the dashes)
const WIDE_LONGS: &[&str] = &[
    "allow-invalid-certificates",
    "allow-invalid-certificate-chains",
    "x86-64-unknown-linux-gnu-static",
];
// (the longer ones are wider in bytes than the 24-column tab stop of the help layout while
// being narrower in characters)
const NONASCII_LONGS: &[&str] = &[
    "naïve",
    "größe",
    "файл",
    "日本",
    "конфигурация",
    "настройки-вывода",
    "ファイル名前設定",
];
const NONASCII_CMDS: &[&str] = &["сборка-проекта", "größenänderung", "ファイル一覧表示"];
const CMDS: &[&str] = &[
    "build", "run", "test", "check", "clean", "add", "remove", "list", "show", "init", "push",
    "pull", "sync", "fetch", "status",
];

pub struct Pool<'a> {
    pub rng: &'a mut Rng,
    pub next_id: Id,
    shorts: HashSet<char>,
    longs: HashSet<String>,
    pub o: GenOpts,
}

impl<'a> Pool<'a> {
    pub fn new(rng: &'a mut Rng, o: GenOpts) -> Self {
        Pool {
            rng,
            next_id: 1,
            shorts: HashSet::new(),
            longs: HashSet::new(),
            o,
        }
    }

    pub fn id(&mut self) -> Id {
        let i = self.next_id;
        self.next_id += 1;
        i
    }

    pub fn short(&mut self) -> Option<char> {
        for _ in 0..20 {
            let c = if self.o.nonascii && self.rng.chance(1, 8) {
                *self.rng.pick(NONASCII_SHORTS)
            } else {
                let cs: Vec<char> = SHORTS.chars().collect();
                *self.rng.pick(&cs)
            };
            if self.shorts.insert(c) {
                return Some(c);
            }
        }
        None
    }

    /// short alias of a command: a word on the line, so not a digit (value tokens are numbers)
    pub fn cmd_short(&mut self) -> Option<char> {
        for _ in 0..4 {
            match self.short() {
                Some(c) if c.is_ascii_digit() => continue,
                other => return other,
            }
        }
        None
    }

    pub fn long(&mut self) -> String {
        loop {
            let base = if self.o.nonascii && self.rng.chance(1, 8) {
                *self.rng.pick(NONASCII_LONGS)
            } else if self.rng.chance(1, 16) {
                *self.rng.pick(WIDE_LONGS)
            } else {
                *self.rng.pick(LONGS)
            };
            let cand = if self.longs.contains(base) {
                format!("{}{}", base, self.rng.below(100))
            } else {
                base.to_string()
            };
            if self.longs.insert(cand.clone()) {
                return cand;
            }
        }
    }

    pub fn cmd_name(&mut self) -> String {
        loop {
            let base = if self.o.nonascii && self.rng.chance(1, 12) {
                *self.rng.pick(NONASCII_CMDS)
            } else {
                *self.rng.pick(CMDS)
            };
            let cand = if self.longs.contains(base) {
                format!("{}{}", base, self.rng.below(100))
            } else {
                base.to_string()
            };
            if self.longs.insert(cand.clone()) {
                return cand;
            }
        }
    }

    pub fn names(&mut self) -> Names {
        let mut n = Names::default();
        let style = self.rng.below(3); // 0 both, 1 short only, 2 long only
        if style != 2 {
            if let Some(c) = self.short() {
                n.shorts.push(c);
            }
        }
        if style != 1 || n.shorts.is_empty() {
            n.longs.push(self.long());
        }
        if self.o.aliases && self.rng.chance(1, 4) {
            if self.rng.chance(1, 2) {
                if let Some(c) = self.short() {
                    n.shorts.push(c);
                }
            } else {
                let l = self.long();
                n.longs.push(l);
            }
        }
        n
    }

    fn help(&mut self, id: Id) -> Option<String> {
        if self.o.help_texts && self.rng.chance(2, 3) {
            Some(format!("help-for-item-{}", id))
        } else {
            None
        }
    }

    fn ty(&mut self) -> Ty {
        let ts = self.o.types.clone();
        *self.rng.pick(&ts)
    }

    fn metavar(&mut self, id: Id) -> String {
        format!("M{}", id)
    }

    /// declare environment variables for the item (C18)
    fn with_env(&mut self, mut n: Names, id: Id) -> Names {
        if self.o.env && self.rng.chance(2, 3) {
            n.envs.push(format!("BPAF_VERIF_ENV_{}", id));
            if self.rng.chance(1, 5) {
                n.envs.push(format!("BPAF_VERIF_ENV_{}_B", id));
            }
            // environment only, no name on the command line
            if self.o.env_only && self.rng.chance(1, 10) {
                n.shorts.clear();
                n.longs.clear();
            }
        }
        n
    }

    pub fn flag_item(&mut self, leaf: Leaf) -> Item {
        let id = self.id();
        let n = self.names();
        Item {
            id,
            names: self.with_env(n, id),
            help: self.help(id),
            leaf,
        }
    }

    pub fn arg_item(&mut self) -> Item {
        let id = self.id();
        let adjacent = self.o.adjacent_args && self.rng.chance(1, 8);
        let n = self.names();
        Item {
            id,
            names: self.with_env(n, id),
            help: self.help(id),
            leaf: Leaf::Arg {
                ty: self.ty(),
                metavar: self.metavar(id),
                adjacent,
            },
        }
    }

    pub fn pos_item(&mut self, strict: Strict) -> Item {
        let id = self.id();
        Item {
            id,
            names: Names::default(),
            help: self.help(id),
            leaf: Leaf::Pos {
                ty: self.ty(),
                metavar: self.metavar(id),
                strict,
            },
        }
    }

    fn catch(&mut self) -> bool {
        self.o.catch && self.rng.chance(1, 4)
    }

    /// wrap in value wrappers / decorators that do not change arity
    fn decorate(&mut self, mut s: Spec) -> Spec {
        if self.o.value_wrappers {
            match self.rng.below(8) {
                0 => s = Spec::wrap(W::Guard, self.id(), s),
                1 => s = Spec::wrap(W::ParseStep, self.id(), s),
                2 => s = Spec::wrap(W::Map, self.id(), s),
                _ => {}
            }
        }
        if self.o.completers && self.rng.chance(1, 4) {
            let id = self.id();
            let n = self.rng.range(0, 3);
            let vals = (0..n)
                .map(|k| {
                    (
                        format!("c{}x{}", id, k),
                        if self.rng.chance(1, 2) {
                            Some(format!("descr-c{}x{}", id, k))
                        } else {
                            None
                        },
                    )
                })
                .collect();
            let group = if self.rng.chance(1, 3) {
                Some(format!("cgroup-{}", id))
            } else {
                None
            };
            s = Spec::wrap(W::Complete(vals, group), id, s);
        }
        if self.o.shell_completers && self.rng.chance(1, 5) {
            let id = self.id();
            let kind = *self.rng.pick(&[
                ShellKind::File,
                ShellKind::FileMask,
                ShellKind::Dir,
                ShellKind::DirMask,
                ShellKind::Raw,
                ShellKind::Nothing,
            ]);
            let mask = self
                .rng
                .pick(&["*.txt", "*.(md|toml)", "rs", "*.it's", "a b"])
                .to_string();
            s = Spec::wrap(W::Shell(kind, mask), id, s);
        }
        if self.o.decor {
            match self.rng.below(14) {
                0 => s = Spec::wrap(W::HideUsage, self.id(), s),
                1 => {
                    let id = self.id();
                    s = Spec::wrap(W::CustomUsage(format!("CU{}", id)), id, s);
                }
                2 => {
                    let id = self.id();
                    s = Spec::wrap(W::GroupHelp(format!("group-{}", id)), id, s);
                }
                3 => {
                    let id = self.id();
                    s = Spec::wrap(W::WithGroupHelp(format!("wgroup-{}", id)), id, s);
                }
                4 => s = Spec::wrap(W::Boxed, self.id(), s),
                _ => {}
            }
        }
        s
    }

    fn maybe_hide(&mut self, s: Spec) -> Spec {
        if self.o.hidden && self.rng.chance(1, 8) {
            Spec::wrap(W::Hide, self.id(), s)
        } else {
            s
        }
    }

    /// one named field with a random arity
    pub fn named_field(&mut self) -> Spec {
        let s = match self.rng.below(12) {
            0 | 1 => {
                let it = Spec::Item(self.flag_item(Leaf::Switch));
                // `switch().many()`: repetition over a parser that can succeed on nothing
                if self.rng.chance(1, 6) {
                    Spec::wrap(W::Many { catch: false }, self.id(), it)
                } else {
                    it
                }
            }
            2 => {
                let it = Spec::Item(self.flag_item(Leaf::Flag));
                if self.rng.chance(1, 6) {
                    Spec::wrap(W::Many { catch: false }, self.id(), it)
                } else {
                    it
                }
            }
            3 => {
                // required flag, possibly counted / optional
                let it = Spec::Item(self.flag_item(Leaf::ReqFlag));
                let it = self.decorate(it);
                match self.rng.below(4) {
                    0 => it,
                    1 => Spec::wrap(W::Count, self.id(), it),
                    2 => Spec::wrap(W::Optional { catch: false }, self.id(), it),
                    _ => Spec::wrap(W::Many { catch: false }, self.id(), it),
                }
            }
            _ => {
                let it = Spec::Item(self.arg_item());
                let it = self.decorate(it);
                let c = self.catch();
                match self.rng.below(10) {
                    0 => it,
                    // `argument(..).count()`: how many times it was given
                    9 => Spec::wrap(W::Count, self.id(), it),
                    1 => Spec::wrap(W::Optional { catch: c }, self.id(), it),
                    2 => {
                        let o = Spec::wrap(W::Optional { catch: c }, self.id(), it);
                        // `argument(..).optional().many()`
                        if self.rng.chance(1, 5) {
                            Spec::wrap(W::Many { catch: false }, self.id(), o)
                        } else {
                            o
                        }
                    }
                    3 => Spec::wrap(W::Many { catch: c }, self.id(), it),
                    4 => Spec::wrap(W::Some_ { catch: c }, self.id(), it),
                    5 => Spec::wrap(W::Fallback, self.id(), it),
                    6 => Spec::wrap(W::Last, self.id(), it),
                    7 => Spec::wrap(W::Collect { catch: c }, self.id(), it),
                    _ => Spec::wrap(W::FallbackWithOk, self.id(), it),
                }
            }
        };
        let s = self.decorate(s);
        self.maybe_hide(s)
    }

    /// a named field that cannot succeed on an empty line
    pub fn required_named_field(&mut self) -> Spec {
        let s = match self.rng.below(4) {
            0 => Spec::Item(self.flag_item(Leaf::ReqFlag)),
            1 => {
                let it = Spec::Item(self.arg_item());
                Spec::wrap(W::Some_ { catch: false }, self.id(), it)
            }
            _ => Spec::Item(self.arg_item()),
        };
        self.decorate(s)
    }

    /// `req* opt* (many|some)?` with strictness NonStrict* Any* Strict*
    pub fn positionals(&mut self, max: usize) -> Vec<Spec> {
        let n = self.rng.below(max + 1);
        let mut res = Vec::new();
        let n_req = self.rng.below(n + 1);
        let n_opt = self.rng.below(n - n_req + 1);
        let tail = n - n_req - n_opt > 0;
        let total = n_req + n_opt + usize::from(tail);
        // strictness phases
        let (mut a, mut b) = (0, total);
        if self.o.strict && total > 0 && self.rng.chance(1, 2) {
            a = self.rng.below(total + 1);
            b = self.rng.range(a, total);
            if self.rng.chance(1, 2) {
                a = 0;
            }
            if self.rng.chance(1, 3) {
                b = total;
            }
        }
        for ix in 0..total {
            let strict = if ix < a {
                Strict::NonStrict
            } else if ix < b {
                Strict::Any
            } else {
                Strict::Strict
            };
            let it = Spec::Item(self.pos_item(strict));
            let mut it = self.decorate(it);
            if self.o.hidden_positionals && ix >= n_req && self.rng.chance(1, 4) {
                it = Spec::wrap(W::Hide, self.id(), it);
            }
            let s = if ix < n_req {
                it
            } else if ix < n_req + n_opt {
                match self.rng.below(8) {
                    0 => Spec::wrap(W::Fallback, self.id(), it),
                    1 => Spec::wrap(W::FallbackWithOk, self.id(), it),
                    _ => Spec::wrap(W::Optional { catch: false }, self.id(), it),
                }
            } else if self.rng.chance(1, 3) {
                Spec::wrap(W::Some_ { catch: false }, self.id(), it)
            } else {
                Spec::wrap(W::Many { catch: false }, self.id(), it)
            };
            res.push(s);
        }
        if self.o.any_after_strict && b < total && self.rng.chance(1, 3) {
            // a strict positional never lets a word from the left of `--` through to this one
            let it = Spec::Item(self.pos_item(Strict::Any));
            res.push(match self.rng.below(3) {
                0 => Spec::wrap(W::Optional { catch: false }, self.id(), it),
                1 => Spec::wrap(W::Fallback, self.id(), it),
                _ => Spec::wrap(W::Many { catch: false }, self.id(), it),
            });
        }
        if self.o.any && self.rng.chance(1, 6) {
            // a catch-all at the very end: `any("REST", ..).many()`
            let accept = if self.rng.chance(1, 2) {
                AnyAccept::All
            } else {
                AnyAccept::NoDash
            };
            let it = Spec::Item(self.any_item(accept, false));
            res.push(match self.rng.below(3) {
                0 => it,
                1 => Spec::wrap(W::Optional { catch: false }, self.id(), it),
                _ => Spec::wrap(W::Many { catch: false }, self.id(), it),
            });
        }
        res
    }

    fn info(&mut self, o: &mut OptSpec, id: Id) {
        if !self.o.info {
            return;
        }
        if self.rng.chance(2, 3) {
            o.descr = Some(format!("descr-of-{}", id));
        }
        if self.rng.chance(1, 3) {
            o.header = Some(format!("header-of-{}", id));
        }
        if self.rng.chance(1, 3) {
            o.footer = Some(format!("footer-of-{}", id));
        }
        if self.rng.chance(1, 3) {
            o.version = Some(format!("{}.{}.{}", id, self.rng.below(10), self.rng.below(10)));
        }
        if self.o.usage_fallback && self.rng.chance(1, 4) {
            o.fallback_to_usage = true;
        }
        if self.o.custom_help && self.rng.chance(1, 5) {
            let mut n = Names::default();
            if self.rng.chance(1, 2) {
                if let Some(c) = self.short() {
                    n.shorts.push(c);
                }
            }
            n.longs.push(self.long());
            o.help_names = Some(n);
        }
        if self.o.custom_help && o.version.is_some() && self.rng.chance(1, 5) {
            let mut n = Names::default();
            n.longs.push(self.long());
            o.version_names = Some(n);
        }
    }

    pub fn command(&mut self, depth: usize) -> Spec {
        let id = self.id();
        let mut names = vec![self.cmd_name()];
        let mut shorts = Vec::new();
        if self.o.aliases && self.rng.chance(1, 4) {
            names.push(self.cmd_name());
        }
        if self.o.aliases && self.rng.chance(1, 4) {
            if let Some(c) = self.cmd_short() {
                shorts.push(c);
            }
        }
        let mut opts = self.level(depth);
        opts.descr = Some(format!("D{}-descr", id));
        let help = if self.rng.chance(1, 3) {
            Some(format!("cmd-help-{}", id))
        } else {
            None
        };
        Spec::Cmd(Box::new(CmdSpec {
            id,
            names,
            shorts,
            help,
            adjacent: false,
            opts,
        }))
    }

    /// `many` over a choice of `adjacent()` commands whose own levels only have named items
    pub fn adjacent_command_chain(&mut self) -> Spec {
        let n = self.rng.range(1, 3);
        let mut cmds = Vec::new();
        for _ in 0..n {
            let id = self.id();
            let name = self.cmd_name();
            let mut fields = Vec::new();
            for _ in 0..self.rng.range(0, 3) {
                fields.push(self.named_field());
            }
            // `eat FOOD`: a single required word (an optional or repeated one would swallow the
            // name of the next command)
            if self.o.adjacent_cmd_default_word && self.rng.chance(1, 3) {
                // `sleep [SECONDS]`: a typed word with a default
                let mut it = self.pos_item(Strict::Any);
                if let Leaf::Pos { ty, .. } = &mut it.leaf {
                    *ty = Ty::U32;
                }
                let w = if self.rng.chance(1, 2) {
                    W::Fallback
                } else {
                    W::FallbackWithOk
                };
                fields.push(Spec::wrap(w, self.id(), Spec::Item(it)));
            } else if self.rng.chance(1, 3) {
                fields.push(Spec::Item(self.pos_item(Strict::Any)));
            }
            let mut opts = OptSpec::plain(Spec::Seq(fields));
            opts.descr = Some(format!("D{}-descr", id));
            cmds.push(Spec::Cmd(Box::new(CmdSpec {
                id,
                names: vec![name],
                shorts: vec![],
                help: None,
                adjacent: true,
                opts,
            })));
        }
        // `.many()` collects every command of the chain, `.last()` keeps the final one
        let w = if self.o.adjacent_cmd_last && self.rng.chance(1, 4) {
            W::Last
        } else {
            W::Many { catch: false }
        };
        Spec::wrap(w, self.id(), Spec::Alt(cmds))
    }

    /// an adjacent group: flag/argument first, then positionals or named arguments
    pub fn adjacent_group(&mut self) -> Spec {
        let first = if self.rng.chance(2, 3) {
            Spec::Item(self.flag_item(Leaf::ReqFlag))
        } else {
            Spec::Item(self.arg_item())
        };
        let mut fields = vec![first];
        if self.rng.chance(1, 2) {
            for _ in 0..self.rng.range(1, 3) {
                fields.push(Spec::Item(self.pos_item(Strict::Any)));
            }
            if self.o.adjacent_optional_words && self.rng.chance(1, 3) {
                if self.rng.chance(1, 2) {
                    fields.truncate(1);
                }
                let it = Spec::Item(self.pos_item(Strict::Any));
                fields.push(match self.rng.below(3) {
                    0 => Spec::wrap(W::Fallback, self.id(), it),
                    1 => Spec::wrap(W::FallbackWithOk, self.id(), it),
                    _ => Spec::wrap(W::Optional { catch: false }, self.id(), it),
                });
            }
        } else {
            for _ in 0..self.rng.range(1, 2) {
                let it = Spec::Item(self.arg_item());
                if self.rng.chance(1, 3) {
                    fields.push(Spec::wrap(W::Optional { catch: false }, self.id(), it));
                } else {
                    fields.push(it);
                }
            }
            if self.rng.chance(1, 3) {
                fields.push(Spec::Item(self.flag_item(Leaf::Switch)));
            }
            if self.o.adjacent_in_adjacent && self.rng.chance(1, 3) {
                // `--rect --width W [--point X Y]`
                let inner = Spec::Adj(vec![
                    Spec::Item(self.flag_item(Leaf::ReqFlag)),
                    Spec::Item(self.pos_item(Strict::Any)),
                    Spec::Item(self.pos_item(Strict::Any)),
                ]);
                fields.push(Spec::wrap(W::Optional { catch: false }, self.id(), inner));
            }
        }
        // documentation wrappers inside and around the block (`group_help` on a member, on the
        // whole group, or both)
        if self.o.decor {
            for f in fields.iter_mut().skip(1) {
                if self.rng.chance(1, 6) {
                    let id = self.id();
                    let inner = std::mem::replace(f, Spec::Pure(0));
                    *f = Spec::wrap(W::GroupHelp(format!("group-{}", id)), id, inner);
                }
            }
        }
        let mut g = Spec::Adj(fields);
        if self.o.decor && self.rng.chance(1, 5) {
            let id = self.id();
            g = if self.rng.chance(2, 3) {
                Spec::wrap(W::GroupHelp(format!("group-{}", id)), id, g)
            } else {
                Spec::wrap(W::WithGroupHelp(format!("wgroup-{}", id)), id, g)
            };
        }
        match self.rng.below(4) {
            0 => g,
            1 => Spec::wrap(W::Optional { catch: false }, self.id(), g),
            _ => Spec::wrap(W::Many { catch: false }, self.id(), g),
        }
    }

    /// a choice, repeated, between an adjacent group and a plain flag (an enum with an
    /// `adjacent` variant collected into a vector): `construct!([point, verbose]).many()`
    pub fn adjacent_group_in_choice(&mut self) -> Spec {
        let first = Spec::Item(self.flag_item(Leaf::ReqFlag));
        let mut fields = vec![first];
        for _ in 0..self.rng.range(1, 2) {
            fields.push(Spec::Item(self.pos_item(Strict::Any)));
        }
        let group = Spec::Adj(fields);
        let other = Spec::Item(self.flag_item(Leaf::ReqFlag));
        let alt = if self.rng.chance(1, 2) {
            Spec::Alt(vec![group, other])
        } else {
            Spec::Alt(vec![other, group])
        };
        Spec::wrap(W::Many { catch: false }, self.id(), alt)
    }

    /// an adjacent group with a nested member that needs two items and gives back what it took
    /// when the second one is missing: `-a [X Y] [-z]` (`construct!(x, y).fallback(..)` or
    /// `.optional().catch()`), followed by an optional member
    pub fn adjacent_group_nested(&mut self) -> Spec {
        let first = Spec::Item(self.flag_item(Leaf::ReqFlag));
        if self.rng.chance(1, 4) {
            // the first member is itself a plain tuple: `construct!(construct!(tag, x), y)`
            let x = Spec::Item(self.pos_item(Strict::Any));
            let y = Spec::Item(self.pos_item(Strict::Any));
            let g = Spec::Adj(vec![Spec::Seq(vec![first, x]), y]);
            return match self.rng.below(4) {
                0 => g,
                1 => Spec::wrap(W::Optional { catch: false }, self.id(), g),
                _ => Spec::wrap(W::Many { catch: false }, self.id(), g),
            };
        }
        let (x, y) = if self.rng.chance(2, 3) {
            (
                Spec::Item(self.pos_item(Strict::Any)),
                Spec::Item(self.pos_item(Strict::Any)),
            )
        } else {
            (Spec::Item(self.arg_item()), Spec::Item(self.arg_item()))
        };
        let pair = Spec::Seq(vec![x, y]);
        let pair = match self.rng.below(3) {
            0 => Spec::wrap(W::Fallback, self.id(), pair),
            1 => Spec::wrap(W::FallbackWithOk, self.id(), pair),
            _ => Spec::wrap(W::Optional { catch: true }, self.id(), pair),
        };
        let last = Spec::Item(self.flag_item(Leaf::Switch));
        let g = Spec::Adj(vec![first, pair, last]);
        match self.rng.below(4) {
            0 => g,
            1 => Spec::wrap(W::Optional { catch: false }, self.id(), g),
            _ => Spec::wrap(W::Many { catch: false }, self.id(), g),
        }
    }

    /// a required named item that takes exactly one occurrence
    pub fn simple_required_field(&mut self) -> Spec {
        let s = if self.rng.chance(1, 3) {
            Spec::Item(self.flag_item(Leaf::ReqFlag))
        } else {
            Spec::Item(self.arg_item())
        };
        self.decorate(s)
    }

    /// an optional / defaulted / repeated group of named fields (`construct!(a, b).optional()`)
    pub fn seq_group(&mut self) -> Spec {
        let wrapper = self.rng.below(5);
        let repeated = wrapper == 2;
        let first = self.simple_required_field();
        // a hidden member in front of visible ones (the group's documentation must survive it)
        let first = if self.o.hidden && self.rng.chance(1, 4) {
            Spec::wrap(W::Hide, self.id(), first)
        } else {
            first
        };
        let mut fields = vec![first];
        for _ in 0..self.rng.range(1, 2) {
            if repeated || self.rng.chance(1, 2) {
                fields.push(self.simple_required_field());
            } else {
                fields.push(self.named_field());
            }
        }
        let mut g = Spec::Seq(fields);
        if self.o.value_wrappers && self.rng.chance(1, 4) {
            // a check over the whole group (`construct!(lo, hi).guard(..)`): its failure is not
            // tied to a single item of the line
            let id = self.id();
            g = if self.rng.chance(2, 3) {
                Spec::wrap(W::Guard, id, g)
            } else {
                Spec::wrap(W::ParseStep, id, g)
            };
        }
        if self.o.decor && self.rng.chance(1, 3) {
            let id = self.id();
            g = if self.rng.chance(1, 2) {
                Spec::wrap(W::GroupHelp(format!("group-{}", id)), id, g)
            } else {
                Spec::wrap(W::WithGroupHelp(format!("wgroup-{}", id)), id, g)
            };
        }
        match wrapper {
            0 => Spec::wrap(W::Optional { catch: false }, self.id(), g),
            1 => Spec::wrap(W::Fallback, self.id(), g),
            2 => Spec::wrap(W::Many { catch: false }, self.id(), g),
            3 => Spec::wrap(W::FallbackWithOk, self.id(), g),
            _ => g,
        }
    }

    /// a choice between named things with disjoint names
    pub fn alt_group(&mut self) -> Spec {
        let n = self.rng.range(2, 4);
        let wrapper = self.rng.below(5);
        // a repeated choice re-runs every branch on what is left of the line: an optional or
        // repeated member of a branch would take occurrences meant for a later round, so
        // branches of a repeated choice only contain required single-occurrence items
        let repeated = wrapper == 3;
        let mut branches = Vec::new();
        for _ in 0..n {
            if repeated {
                if self.rng.chance(1, 4) {
                    let a = self.simple_required_field();
                    let b = self.simple_required_field();
                    branches.push(Spec::Seq(vec![a, b]));
                } else {
                    branches.push(self.simple_required_field());
                }
            } else if self.o.adjacent_branch && self.rng.chance(1, 4) {
                let mut fields = vec![Spec::Item(self.flag_item(Leaf::ReqFlag))];
                for _ in 0..self.rng.range(1, 2) {
                    fields.push(Spec::Item(self.pos_item(Strict::Any)));
                }
                branches.push(Spec::Adj(fields));
            } else if self.rng.chance(1, 4) {
                let a = self.required_named_field();
                let b = self.named_field();
                branches.push(Spec::Seq(vec![a, b]));
            } else {
                branches.push(self.required_named_field());
            }
        }
        if self.o.pure_fail && !repeated && self.rng.chance(1, 6) {
            branches.push(Spec::Pure(self.id()));
        }
        let a = Spec::Alt(branches);
        match wrapper {
            0 | 1 => a,
            2 => Spec::wrap(W::Optional { catch: false }, self.id(), a),
            3 => Spec::wrap(W::Many { catch: false }, self.id(), a),
            _ => {
                if self.rng.chance(1, 2) {
                    Spec::wrap(W::Fallback, self.id(), a)
                } else {
                    Spec::wrap(W::FallbackWithOk, self.id(), a)
                }
            }
        }
    }

    fn any_item(&mut self, accept: AnyAccept, anywhere: bool) -> Item {
        let id = self.id();
        Item {
            id,
            names: Names::default(),
            help: self.help(id),
            leaf: Leaf::Any {
                metavar: format!("ANY{}", id),
                accept,
                anywhere,
            },
        }
    }

    /// `any(..).anywhere()` among the named items: a literal tag (`-mode`, `+x`), a prefix family
    /// (`+...`), or a find-like block `-exec ITEM... ;`
    pub fn any_field(&mut self) -> Spec {
        let lit = *self.rng.pick(&["-mode", "+x", "-exec", "--", "=", "-"]);
        match self.rng.below(4) {
            0 => {
                let tag = Spec::Item(self.any_item(AnyAccept::Exact(lit.to_string()), true));
                let body = Spec::Item(self.any_item(AnyAccept::Not(";".into()), false));
                let body = Spec::wrap(W::Many { catch: false }, self.id(), body);
                let end = Spec::Item(self.any_item(AnyAccept::Exact(";".into()), false));
                let g = Spec::Adj(vec![tag, body, end]);
                match self.rng.below(3) {
                    0 => g,
                    1 => Spec::wrap(W::Optional { catch: false }, self.id(), g),
                    _ => Spec::wrap(W::Many { catch: false }, self.id(), g),
                }
            }
            1 => {
                let tag = Spec::Item(self.any_item(AnyAccept::Exact(lit.to_string()), true));
                let val = Spec::Item(self.pos_item(Strict::Any));
                let g = Spec::Adj(vec![tag, val]);
                Spec::wrap(W::Optional { catch: false }, self.id(), g)
            }
            k => {
                let accept = if k == 2 {
                    AnyAccept::Prefix("+".into())
                } else {
                    AnyAccept::Exact(lit.to_string())
                };
                let it = Spec::Item(self.any_item(accept, true));
                match self.rng.below(3) {
                    0 => it,
                    1 => Spec::wrap(W::Optional { catch: false }, self.id(), it),
                    _ => Spec::wrap(W::Many { catch: false }, self.id(), it),
                }
            }
        }
    }

    /// `--color=WHEN | --color` / `-s=BYTES | -s=PERCENT`: two visible items of one level with the
    /// same names and the same (or no) help text that differ in kind or in metavariable
    pub fn twin_group(&mut self) -> Spec {
        let mut a = self.arg_item();
        if let Leaf::Arg { adjacent, .. } = &mut a.leaf {
            *adjacent = false;
        }
        let id = self.id();
        let leaf = match (&a.leaf, self.rng.chance(1, 2)) {
            (Leaf::Arg { ty, .. }, true) => Leaf::Arg {
                ty: *ty,
                metavar: format!("N{}", id),
                adjacent: false,
            },
            _ => Leaf::ReqFlag,
        };
        let b = Item {
            id,
            names: a.names.clone(),
            help: a.help.clone(),
            leaf,
        };
        let alt = Spec::Alt(vec![Spec::Item(a), Spec::Item(b)]);
        if self.rng.chance(1, 2) {
            Spec::wrap(W::Optional { catch: false }, self.id(), alt)
        } else {
            alt
        }
    }

    /// Declare one short letter both as a flag and as an argument (ambiguous clusters such as
    /// `-qq`, `-vq` are then reported by the tokenizer)
    pub fn inject_ambiguous(&mut self, spec: &mut OptSpec) {
        if let Spec::Seq(fields) = &mut spec.root {
            if fields.len() < 10 {
                let c = *self.rng.pick(&['q', 'w', 'x']);
                if !self.shorts.insert(c) {
                    return;
                }
                let id1 = self.id();
                let id2 = self.id();
                fields.insert(
                    0,
                    Spec::Item(Item {
                        id: id1,
                        names: Names::short(c),
                        help: None,
                        leaf: Leaf::Switch,
                    }),
                );
                let arg = Spec::Item(Item {
                    id: id2,
                    names: Names {
                        shorts: vec![c],
                        longs: vec![format!("amb{}", id2)],
                        envs: vec![],
                    },
                    help: None,
                    leaf: Leaf::Arg {
                        ty: Ty::Str,
                        metavar: format!("M{}", id2),
                        adjacent: false,
                    },
                });
                let id3 = self.id();
                fields.insert(1, Spec::wrap(W::Optional { catch: false }, id3, arg));
            }
        }
    }

    /// One command level
    pub fn level(&mut self, depth: usize) -> OptSpec {
        let id = self.id();
        let mut fields = Vec::new();
        let n_named = self.rng.below(self.o.max_named + 1);
        for _ in 0..n_named {
            if fields.len() >= 8 {
                break;
            }
            let r = self.rng.below(10);
            if self.o.any && r == 4 && self.rng.chance(1, 2) {
                fields.push(self.any_field());
            } else if self.o.twins && r == 3 && self.rng.chance(1, 2) {
                fields.push(self.twin_group());
            } else if self.o.alts && r == 0 {
                fields.push(self.alt_group());
            } else if self.o.adjacent && r == 1 {
                fields.push(self.adjacent_group());
            } else if self.o.alts && r == 2 && self.rng.chance(1, 2) {
                fields.push(self.seq_group());
            } else {
                fields.push(self.named_field());
            }
        }
        if self.o.pure_fail && self.rng.chance(1, 10) {
            fields.push(Spec::Pure(self.id()));
        }
        let want_cmd = depth > 0 && self.rng.chance(1, 2);
        if self.o.adjacent_cmds && !want_cmd && fields.len() < 10 && self.rng.chance(1, 5) {
            // a chain of adjacent commands ends the level (no positionals next to it)
            fields.push(self.adjacent_command_chain());
            let mut o = OptSpec::plain(Spec::Seq(fields));
            self.info(&mut o, id);
            return o;
        }
        if want_cmd && self.o.cmd_or_words && self.rng.chance(1, 4) {
            let n = self.rng.range(1, 2);
            let mut alts: Vec<Spec> = (0..n).map(|_| self.command(depth - 1)).collect();
            let shape = self.rng.below(3);
            if shape != 1 {
                let ps = self.positionals(self.o.max_pos);
                if !ps.is_empty() {
                    alts.push(Spec::Seq(ps));
                }
            }
            if shape != 0 {
                // an alternative made of named items only, listed before the commands (an enum
                // whose first variant has optional fields): it succeeds on any line without
                // consuming, the command that was entered still has to win
                let k = self.rng.range(1, 2);
                let named: Vec<Spec> = (0..k).map(|_| self.named_field()).collect();
                alts.insert(0, Spec::Seq(named));
            }
            fields.push(Spec::Alt(alts));
            let mut o = OptSpec::plain(Spec::Seq(fields));
            self.info(&mut o, id);
            return o;
        }
        if !want_cmd || self.o.pos_and_cmd {
            let max = if want_cmd { 1 } else { self.o.max_pos };
            let ps = self.positionals(max);
            // a repeated/optional positional in front of a command would swallow its name
            if want_cmd {
                for p in ps {
                    if matches!(p, Spec::Item(_)) {
                        fields.push(p);
                    }
                }
            } else {
                fields.extend(ps);
            }
        }
        if want_cmd {
            let n = self.rng.range(1, 3);
            let mut cmds: Vec<Spec> = (0..n).map(|_| self.command(depth - 1)).collect();
            if self.o.hidden_cmds && n > 1 && self.rng.chance(1, 4) {
                let k = self.rng.below(n);
                let c = cmds.remove(k);
                let hid = self.id();
                cmds.insert(k, Spec::wrap(W::Hide, hid, c));
            }
            let a = Spec::Alt(cmds);
            let mut cf = if self.rng.chance(1, 4) {
                let catch = self.o.cmd_catch && self.rng.chance(1, 2);
                Spec::wrap(W::Optional { catch }, self.id(), a)
            } else if self.o.cmd_fallback && self.rng.chance(1, 3) {
                let w = if self.rng.chance(1, 2) {
                    W::Fallback
                } else {
                    W::FallbackWithOk
                };
                Spec::wrap(w, self.id(), a)
            } else {
                a
            };
            let no_words = !fields.iter().any(|f| {
                let mut is = Vec::new();
                f.level_items(&mut is);
                is.iter().any(|i| i.is_pos())
            });
            if self.o.decor && no_words && self.rng.chance(1, 6) {
                // `construct!(flag, cmd).group_help(..)`: commands inside a block that starts with
                // a named item
                let flag = Spec::Item(self.flag_item(Leaf::Switch));
                let gid = self.id();
                let w = if self.rng.chance(2, 3) {
                    W::GroupHelp(format!("group-{}", gid))
                } else {
                    W::WithGroupHelp(format!("wgroup-{}", gid))
                };
                cf = Spec::wrap(w, gid, Spec::Seq(vec![flag, cf]));
            }
            fields.push(cf);
        }
        let mut o = OptSpec::plain(Spec::Seq(fields));
        self.info(&mut o, id);
        o
    }
}

pub fn gen_options(rng: &mut Rng, o: GenOpts) -> OptSpec {
    let depth = o.cmd_depth;
    let mut p = Pool::new(rng, o);
    p.level(depth)
}
