//! Canonical witnesses of known findings (open and fixed).
//!
//! Each witness builds one specific definition, runs one specific vector against the real code
//! and reports whether the recorded defect still shows. `bin/check` prints a KNOWN-FINDING line
//! for an open finding only while its witness reproduces, and treats a reproducing witness of a
//! *fixed* finding as a violation.

use crate::build::build_options;
use crate::outcome::*;
use crate::spec::*;

fn bytes(v: &[&str]) -> Vec<Vec<u8>> {
    v.iter().map(|s| s.as_bytes().to_vec()).collect()
}

fn item(id: Id, names: Names, leaf: Leaf) -> Spec {
    Spec::Item(Item {
        id,
        names,
        help: None,
        leaf,
    })
}

fn arg(id: Id, names: Names, ty: Ty) -> Spec {
    item(
        id,
        names,
        Leaf::Arg {
            ty,
            metavar: format!("M{}", id),
            adjacent: false,
        },
    )
}

fn pos(id: Id, ty: Ty) -> Spec {
    item(
        id,
        Names::default(),
        Leaf::Pos {
            ty,
            metavar: format!("M{}", id),
            strict: Strict::Any,
        },
    )
}

fn both(c: char, l: &str) -> Names {
    Names {
        shorts: vec![c],
        longs: vec![l.to_string()],
        envs: vec![],
    }
}

/// true - the defect reproduces
pub fn run(name: &str) -> Option<bool> {
    Some(match name {
        // C04/C15: completion revision 9 without an application name used to panic
        "fish_no_name" => {
            let o = OptSpec::plain(Spec::Seq(vec![item(1, both('a', "alpha"), Leaf::Switch)]));
            let p = build_options(&o);
            let (out, _, _) = run_full(
                &p,
                &bytes(&["--al"]),
                &RunOpts {
                    comp: Some(9),
                    ..RunOpts::default()
                },
            );
            matches!(out, Outcome::Panic(_))
        }
        // C02: `-é=v` was split in the middle of the two-byte name and became a positional word
        "nonascii_short_eq" => {
            let o = OptSpec::plain(Spec::Seq(vec![arg(1, Names::short('é'), Ty::Str)]));
            let p = build_options(&o);
            let out = crate::outcome::run(&p, &[b"-\xc3\xa9=v".to_vec()]);
            out != Outcome::Value(V::Tuple(vec![V::field(1, V::Bytes(b"v".to_vec()))]))
        }
        // C02: a short letter of a hidden item is unknown to the tokenizer, so `-ab` (b hidden)
        // and `-bVALUE` are read as plain words while `-a -b` / `-b VALUE` work
        "hidden_short_cluster" => {
            let o = OptSpec::plain(Spec::Seq(vec![
                item(1, Names::short('a'), Leaf::Switch),
                Spec::wrap(W::Hide, 3, item(2, Names::short('b'), Leaf::Switch)),
            ]));
            let p = build_options(&o);
            let split = crate::outcome::run(&p, &bytes(&["-a", "-b"]));
            let cluster = crate::outcome::run(&p, &bytes(&["-ab"]));
            split.is_value() && split != cluster
        }
        // C02: `-n<bytes>` with bytes that are not valid UTF-8 is read as a word although
        // `-n=<bytes>` delivers them to an OsString argument
        "short_joined_non_utf8" => {
            let o = OptSpec::plain(Spec::Seq(vec![arg(1, Names::short('n'), Ty::Os)]));
            let p = build_options(&o);
            let eq = crate::outcome::run(&p, &[b"-n=v\xff".to_vec()]);
            let joined = crate::outcome::run(&p, &[b"-nv\xff".to_vec()]);
            eq.is_value() && eq != joined
        }
        // C02: `-abK=V` (flags a, b, argument K with attached value `=V`... i.e. a value containing
        // `=`) is read as `-a=bK=V`
        "cluster_joined_value_with_eq" => {
            let o = OptSpec::plain(Spec::Seq(vec![
                item(1, Names::short('a'), Leaf::Switch),
                arg(2, Names::short('k'), Ty::Str),
            ]));
            let p = build_options(&o);
            let split = crate::outcome::run(&p, &bytes(&["-a", "-kx=y"]));
            let cluster = crate::outcome::run(&p, &bytes(&["-akx=y"]));
            split.is_value() && split != cluster
        }
        // C10: `--help` next to a failing adjacent group (`--help --point 1`) reported the group's
        // error because the failed group left a narrowed scope behind
        "help_next_to_failing_adjacent_group" => {
            let group = Spec::Adj(vec![
                item(1, Names::long("point"), Leaf::ReqFlag),
                pos(2, Ty::U32),
                pos(3, Ty::U32),
            ]);
            let o = OptSpec::plain(Spec::Seq(vec![group]));
            let p = build_options(&o);
            let a = crate::outcome::run(&p, &bytes(&["--help", "--point", "1"]));
            let b = crate::outcome::run(&p, &bytes(&["--point", "-h", "1", "2"]));
            !(a.is_stdout() && b.is_stdout())
        }
        // C10: `sub --help` while a field of the enclosing level (declared before the command)
        // is missing: sequential composition reports the enclosing field first, the inner help
        // is lost
        "help_behind_failing_enclosing_field" => {
            let inner = OptSpec::plain(Spec::Seq(vec![item(3, Names::long("inner"), Leaf::Switch)]));
            let cmd = Spec::Cmd(Box::new(CmdSpec {
                id: 2,
                names: vec!["sub".to_string()],
                shorts: vec![],
                help: None,
                adjacent: false,
                opts: inner,
            }));
            let o = OptSpec::plain(Spec::Seq(vec![
                item(1, Names::long("req"), Leaf::ReqFlag),
                Spec::Alt(vec![cmd]),
            ]));
            let p = build_options(&o);
            let with_req = crate::outcome::run(&p, &bytes(&["--req", "sub", "--help"]));
            let without = crate::outcome::run(&p, &bytes(&["sub", "--help"]));
            with_req.is_stdout() && !without.is_stdout()
        }
        // C16: a backslash in text that becomes a .SS/.SH/.TH argument was copied unescaped
        "roff_macro_argument_backslash" => {
            let o = OptSpec::plain(Spec::Seq(vec![Spec::wrap(
                W::GroupHelp("group \\fZ header".to_string()),
                2,
                item(1, Names::long("alpha"), Leaf::Switch),
            )]));
            let p = build_options(&o);
            let doc = p.render_manpage("app", bpaf::doc::Section::General, None, None, None);
            doc.lines()
                .any(|l| l.starts_with(".SS") && l.to_lowercase().contains("\\fz"))
        }
        // C14: typing the attached value of a hidden argument (`-n=<TAB>`) offers unrelated names
        "completion_value_of_hidden_argument" => {
            let o = OptSpec::plain(Spec::Seq(vec![
                Spec::wrap(W::Hide, 3, arg(1, Names::short('n'), Ty::Str)),
                item(2, Names::long("level"), Leaf::Switch),
            ]));
            let p = build_options(&o);
            let (out, _, _) = run_full(
                &p,
                &bytes(&["-n="]),
                &RunOpts {
                    comp: Some(0),
                    ..RunOpts::default()
                },
            );
            matches!(out, Outcome::Completion(t) if t.contains("--level"))
        }
        // C14: a command name is not offered when the level also accepts a positional there
        "completion_command_next_to_positional" => {
            let inner = OptSpec::plain(Spec::Seq(vec![item(3, Names::long("inner"), Leaf::Switch)]));
            let cmd = Spec::Cmd(Box::new(CmdSpec {
                id: 2,
                names: vec!["remove".to_string()],
                shorts: vec![],
                help: None,
                adjacent: false,
                opts: inner,
            }));
            let o = OptSpec::plain(Spec::Seq(vec![Spec::Alt(vec![cmd, pos(4, Ty::Str)])]));
            let p = build_options(&o);
            let (out, _, _) = run_full(
                &p,
                &bytes(&["re"]),
                &RunOpts {
                    comp: Some(0),
                    ..RunOpts::default()
                },
            );
            matches!(out, Outcome::Completion(t) if !t.contains("remove"))
        }
        // C15: zsh output echoed the typed word unquoted when there was nothing to suggest
        "zsh_unquoted_typed_word" => {
            let o = OptSpec::plain(Spec::Seq(vec![item(1, both('a', "alpha"), Leaf::Switch)]));
            let p = build_options(&o);
            let (out, _, _) = run_full(
                &p,
                &bytes(&["-a", "$(canary) x"]),
                &RunOpts {
                    comp: Some(7),
                    name: Some("app".into()),
                    ..RunOpts::default()
                },
            );
            matches!(out, Outcome::Completion(t) if t.contains("compadd -- $(canary)"))
        }
        // C15: bash `_filedir` directive was not terminated by a newline
        "bash_filedir_newline" => {
            let f = Spec::wrap(W::Shell(ShellKind::File, String::new()), 3, pos(2, Ty::Str));
            let o = OptSpec::plain(Spec::Seq(vec![item(1, both('a', "alpha"), Leaf::Switch), f]));
            let p = build_options(&o);
            let (out, _, _) = run_full(
                &p,
                &bytes(&[""]),
                &RunOpts {
                    comp: Some(8),
                    name: Some("app".into()),
                    ..RunOpts::default()
                },
            );
            matches!(out, Outcome::Completion(t) if t.contains("_filedirCOMPREPLY"))
        }
        // C15: zsh dropped the `_files` request when exactly one candidate existed
        "zsh_single_candidate_drops_files" => {
            let f = Spec::wrap(W::Shell(ShellKind::File, String::new()), 3, pos(2, Ty::Str));
            let o = OptSpec::plain(Spec::Seq(vec![item(1, both('a', "alpha"), Leaf::Switch), f]));
            let p = build_options(&o);
            let (out, _, _) = run_full(
                &p,
                &bytes(&[""]),
                &RunOpts {
                    comp: Some(7),
                    name: Some("app".into()),
                    ..RunOpts::default()
                },
            );
            matches!(out, Outcome::Completion(t) if t.contains("compadd") && !t.contains("_files"))
        }
        // C15: fish protocol is one candidate per line, a typed word with a newline that is
        // echoed back (nothing to suggest) becomes two lines
        "fish_newline_in_typed_word" => {
            let o = OptSpec::plain(Spec::Seq(vec![item(1, both('a', "alpha"), Leaf::Switch)]));
            let p = build_options(&o);
            let (out, _, _) = run_full(
                &p,
                &bytes(&["-a", "x\ny"]),
                &RunOpts {
                    comp: Some(9),
                    name: Some("app".into()),
                    ..RunOpts::default()
                },
            );
            matches!(out, Outcome::Completion(t) if t == "x\ny\n")
        }
        // C05: an adjacent command that succeeds on its narrowed retry left the window of the
        // failed attempt as the scope; with an already consumed item further right everything
        // behind that window was silently dropped
        "adjacent_command_drops_items" => {
            let cmd = |id: Id, name: &str, inner: Spec| {
                Spec::Cmd(Box::new(CmdSpec {
                    id,
                    names: vec![name.to_string()],
                    shorts: vec![],
                    help: None,
                    adjacent: true,
                    opts: OptSpec::plain(Spec::Seq(vec![inner])),
                }))
            };
            let chain = Spec::wrap(
                W::Many { catch: false },
                6,
                Spec::Alt(vec![
                    cmd(2, "eat", pos(3, Ty::Str)),
                    cmd(4, "drink", item(5, Names::long("coffee"), Leaf::Switch)),
                ]),
            );
            let o = OptSpec::plain(Spec::Seq(vec![
                item(1, both('p', "premium"), Leaf::Switch),
                chain,
            ]));
            let p = build_options(&o);
            crate::outcome::run(&p, &bytes(&["eat", "Fastfood", "drink", "--premium", "bogus"]))
                .is_value()
        }
        // C19: a block whose optional word member is absent, then a foreign flag, then a word for
        // the enclosing level: the group looked at the non-adjacent word, failed to convert it
        // and gave the block up
        "adjacent_group_fails_on_non_adjacent_word" => {
            let group = Spec::Adj(vec![
                item(1, Names::short('a'), Leaf::ReqFlag),
                Spec::wrap(W::Optional { catch: false }, 3, pos(2, Ty::U32)),
            ]);
            let o = OptSpec::plain(Spec::Seq(vec![
                Spec::wrap(W::Many { catch: false }, 4, group),
                item(5, Names::short('f'), Leaf::Switch),
                Spec::wrap(W::Optional { catch: false }, 7, pos(6, Ty::Str)),
            ]));
            let p = build_options(&o);
            !crate::outcome::run(&p, &bytes(&["-a", "-f", "name"])).is_value()
        }
        // C10: `sleep drink --help` with a chain of adjacent commands where `sleep` lacks its
        // required `--time`: the chain is evaluated block by block, the earlier invalid block
        // answers (with its own help here, with its error when the help item is out of its reach)
        "help_behind_invalid_adjacent_command" => {
            let cmd = |id: Id, name: &str, inner: Spec| {
                let mut opts = OptSpec::plain(Spec::Seq(vec![inner]));
                opts.descr = Some(format!("D{}-descr", id));
                Spec::Cmd(Box::new(CmdSpec {
                    id,
                    names: vec![name.to_string()],
                    shorts: vec![],
                    help: None,
                    adjacent: true,
                    opts,
                }))
            };
            let chain = Spec::wrap(
                W::Many { catch: false },
                6,
                Spec::Alt(vec![
                    cmd(2, "sleep", arg(3, Names::long("time"), Ty::U32)),
                    cmd(4, "drink", item(5, Names::long("coffee"), Leaf::Switch)),
                ]),
            );
            let o = OptSpec::plain(Spec::Seq(vec![chain]));
            let p = build_options(&o);
            let good = crate::outcome::run(&p, &bytes(&["sleep", "--time", "3", "drink", "--help"]));
            let bad = crate::outcome::run(&p, &bytes(&["sleep", "drink", "--help"]));
            let describes_drink =
                |o: &Outcome| matches!(o, Outcome::Stdout { text, .. } if text.contains("D4-descr"));
            describes_drink(&good) && !describes_drink(&bad)
        }
        // C04/C20: `group_help` whose title is a Doc of several text tokens with a line break in
        // the first one and a multi-byte character: Doc::first_line sliced the next token from the
        // wrong offset and panicked - on every ordinary run of an autocomplete build
        "group_help_doc_first_line_panics" => {
            let o = OptSpec::plain(Spec::Seq(vec![Spec::wrap(
                W::GroupHelp("\u{e9}\nsecond line {{lit:x}} tail".to_string()),
                3,
                Spec::Seq(vec![
                    item(1, Names::short('a'), Leaf::Switch),
                    item(2, Names::short('b'), Leaf::Switch),
                ]),
            )]));
            let p = build_options(&o);
            matches!(
                crate::outcome::run(&p, &bytes(&["-a"])),
                Outcome::Panic(_)
            )
        }
        // C02: a letter that is a flag in one command and an argument in a sibling command: the
        // tokenizer knows letters for the whole program, `one -ab` is reported ambiguous while
        // `one -a -b` works
        "cluster_letter_declared_differently_in_sibling_command" => {
            let cmd = |id: Id, name: &str, fields: Vec<Spec>| {
                Spec::Cmd(Box::new(CmdSpec {
                    id,
                    names: vec![name.to_string()],
                    shorts: vec![],
                    help: None,
                    adjacent: false,
                    opts: OptSpec::plain(Spec::Seq(fields)),
                }))
            };
            let o = OptSpec::plain(Spec::Seq(vec![Spec::Alt(vec![
                cmd(
                    1,
                    "one",
                    vec![
                        item(2, Names::short('a'), Leaf::Switch),
                        item(3, Names::short('b'), Leaf::Switch),
                    ],
                ),
                cmd(4, "two", vec![arg(5, Names::short('a'), Ty::Str)]),
            ])]));
            let p = build_options(&o);
            let split = crate::outcome::run(&p, &bytes(&["one", "-a", "-b"]));
            let cluster = crate::outcome::run(&p, &bytes(&["one", "-ab"]));
            split.is_value() && split != cluster
        }
        // C03: input by name or by position, then OUT: `--input a b` accepted, `b --input a` not
        "named_or_positional_choice_depends_on_order" => {
            let o = OptSpec::plain(Spec::Seq(vec![
                Spec::Alt(vec![arg(1, Names::long("input"), Ty::Str), pos(2, Ty::Str)]),
                pos(3, Ty::Str),
            ]));
            let p = build_options(&o);
            let a = crate::outcome::run(&p, &bytes(&["--input", "a", "b"]));
            let b = crate::outcome::run(&p, &bytes(&["b", "--input", "a"]));
            a.is_value() && !b.is_value()
        }
        // C03/C02: `construct!(--name N, P).many()`: `--name a --name b x y` fails, the word of the
        // first round takes the detached value of the second `--name`
        "word_inside_repeated_group_takes_detached_value" => {
            let o = OptSpec::plain(Spec::Seq(vec![Spec::wrap(
                W::Many { catch: false },
                3,
                Spec::Seq(vec![arg(1, Names::long("name"), Ty::Str), pos(2, Ty::Str)]),
            )]));
            let p = build_options(&o);
            let a = crate::outcome::run(&p, &bytes(&["--name=a", "--name=b", "x", "y"]));
            let b = crate::outcome::run(&p, &bytes(&["--name", "a", "--name", "b", "x", "y"]));
            a.is_value() && !b.is_value()
        }
        // C09: `cargo_helper("pretty", ..)` on `-- pretty a`: the data item is taken for the command
        "cargo_helper_takes_data_right_of_separator" => {
            let files = Spec::wrap(W::Many { catch: false }, 3, pos(2, Ty::Str));
            let mut o = OptSpec::plain(Spec::Seq(vec![item(1, Names::short('v'), Leaf::Switch), files]));
            o.cargo = Some("pretty".to_string());
            let p = build_options(&o);
            match crate::outcome::run(&p, &bytes(&["--", "pretty", "a"])) {
                Outcome::Value(v) => !v.show().contains("pretty"),
                _ => true,
            }
        }
        // C14: `image` typed exactly: the sibling command `images` is not offered
        "exact_name_hides_longer_sibling_in_completion" => {
            let cmd = |id: Id, name: &str| {
                let mut opts = OptSpec::plain(Spec::Seq(vec![item(id + 1, Names::long("force"), Leaf::Switch)]));
                opts.descr = Some("d".into());
                Spec::Cmd(Box::new(CmdSpec {
                    id,
                    names: vec![name.to_string()],
                    shorts: vec![],
                    help: None,
                    adjacent: false,
                    opts,
                }))
            };
            let o = OptSpec::plain(Spec::Seq(vec![Spec::Alt(vec![cmd(10, "image"), cmd(20, "images")])]));
            let p = build_options(&o);
            match crate::props::comp::complete(&p, &bytes(&["image"]), 0, None, 10_000_000) {
                Outcome::Completion(text) => !text.contains("images"),
                _ => return None,
            }
        }
        // C15: fish / elvish output has no directive for a requested file completer
        "fish_output_drops_requested_shell_completer"
        | "elvish_output_drops_requested_shell_completer" => {
            let rev = if name.starts_with("fish") { 9 } else { 1 };
            let a = Spec::wrap(
                W::Shell(ShellKind::File, String::new()),
                2,
                arg(1, Names::long("file"), Ty::Str),
            );
            let o = OptSpec::plain(Spec::Seq(vec![a]));
            let p = build_options(&o);
            let argv = bytes(&["--file", ""]);
            let wants = match crate::props::comp::complete(&p, &argv, 0, None, 10_000_000) {
                Outcome::Completion(text) => !crate::props::comp::parse_rev0(&text).ops.is_empty(),
                _ => return None,
            };
            match crate::props::comp::complete(&p, &argv, rev, None, 10_000_000) {
                Outcome::Completion(text) => wants && !text.to_lowercase().contains("file"),
                _ => return None,
            }
        }
        // C15: a one-line help of 150 columns came out as two lines in completion output
        "long_help_line_breaks_completion_description" => {
            let mut a = Item {
                id: 1,
                names: Names::long("alpha"),
                help: Some("word ".repeat(30).trim_end().to_string()),
                leaf: Leaf::Switch,
            };
            a.id = 1;
            let b = Item {
                id: 2,
                names: Names::long("alpine"),
                help: Some("short".to_string()),
                leaf: Leaf::Switch,
            };
            let o = OptSpec::plain(Spec::Seq(vec![Spec::Item(a), Spec::Item(b)]));
            let p = build_options(&o);
            match crate::props::comp::complete(&p, &bytes(&["--al"]), 9, None, 10_000_000) {
                Outcome::Completion(text) => text.lines().count() > 2,
                _ => return None,
            }
        }
        // C06: `construct!(a, b).guard(..).fallback(..).many()`: a later block that fails the guard
        "later_block_of_defaulted_repeated_group_fails_guard" => {
            let g = Spec::Seq(vec![
                arg(1, Names::long("alpha"), Ty::U32),
                arg(2, Names::long("beta"), Ty::U32),
            ]);
            let g = Spec::wrap(W::Fallback, 4, Spec::wrap(W::Guard, 3, g));
            let o = OptSpec::plain(Spec::Seq(vec![Spec::wrap(W::Many { catch: false }, 5, g)]));
            let p = build_options(&o);
            let out = crate::outcome::run(
                &p,
                &bytes(&["--alpha", "1", "--beta", "10", "--alpha", "900001", "--beta", "11"]),
            );
            !matches!(out, Outcome::Stderr { text } if text.contains(&crate::build::guard_msg(3)))
        }
        // C06: `sleep [SECONDS]` as an adjacent command next to trailing words: `sleep 1.5 w0`
        // defaults SECONDS and hands `1.5` to the enclosing level
        "adjacent_command_defaulted_word_masks_invalid_value" => {
            let mut opts = OptSpec::plain(Spec::Seq(vec![Spec::wrap(
                W::Fallback,
                3,
                pos(2, Ty::U32),
            )]));
            opts.descr = Some("d".into());
            let sleep = Spec::Cmd(Box::new(CmdSpec {
                id: 1,
                names: vec!["sleep".into()],
                shorts: vec![],
                help: None,
                adjacent: true,
                opts,
            }));
            let rest = Spec::wrap(W::Many { catch: false }, 5, pos(4, Ty::Str));
            let o = OptSpec::plain(Spec::Seq(vec![sleep, rest]));
            let p = build_options(&o);
            crate::outcome::run(&p, &bytes(&["sleep", "1.5", "w0"])).is_value()
        }
        // C02: `fetch -K -?` prints the help of `fetch`, `fetch -K?` is an unexpected word
        "subcommand_help_letter_in_cluster" => {
            let mut copts = OptSpec::plain(Spec::Seq(vec![item(11, Names::short('K'), Leaf::Switch)]));
            copts.descr = Some("d".into());
            copts.help_names = Some(Names {
                shorts: vec!['?'],
                longs: vec!["usage".to_string()],
                envs: vec![],
            });
            let cmd = Spec::Cmd(Box::new(CmdSpec {
                id: 10,
                names: vec!["fetch".to_string()],
                shorts: vec![],
                help: None,
                adjacent: false,
                opts: copts,
            }));
            let o = OptSpec::plain(Spec::Seq(vec![cmd]));
            let p = build_options(&o);
            let split = crate::outcome::run(&p, &bytes(&["fetch", "-K", "-?"]));
            let fused = crate::outcome::run(&p, &bytes(&["fetch", "-K?"]));
            matches!(split, Outcome::Stdout { .. }) && split != fused
        }
        // C10: `command("cmd", ..).optional().catch()`: `cmd --help` printed the help of the
        // enclosing level, the output the subcommand handed up was caught like a failure
        "catch_swallows_subcommand_help" => {
            let mut copts = OptSpec::plain(Spec::Seq(vec![item(11, Names::long("flag"), Leaf::Switch)]));
            copts.descr = Some("inner-descr".into());
            let cmd = Spec::Cmd(Box::new(CmdSpec {
                id: 10,
                names: vec!["cmd".to_string()],
                shorts: vec![],
                help: None,
                adjacent: false,
                opts: copts,
            }));
            let mut o = OptSpec::plain(Spec::Seq(vec![Spec::wrap(
                W::Optional { catch: true },
                12,
                Spec::Alt(vec![cmd]),
            )]));
            o.descr = Some("outer-descr".into());
            let p = build_options(&o);
            match crate::outcome::run(&p, &bytes(&["cmd", "--help"])) {
                Outcome::Stdout { text, .. } => !text.contains("inner-descr"),
                _ => true,
            }
        }
        // C02: `short('h').argument("HOST")`: `-h foo` accepted, `-hfoo` "ambiguous"
        "builtin_help_letter_declared_as_argument" => {
            let o = OptSpec::plain(Spec::Seq(vec![arg(1, Names::short('h'), Ty::Str)]));
            let p = build_options(&o);
            let split = crate::outcome::run(&p, &bytes(&["-h", "foo"]));
            let joined = crate::outcome::run(&p, &bytes(&["-hfoo"]));
            split.is_value() && split != joined
        }
        // C04: `construct!(pure(..), flag).adjacent()` passes check_invariants and panics on every
        // run ("bpaf usage BUG: adjacent should start with a required argument")
        "adjacent_group_without_first_item_panics" => {
            let g = Spec::Adj(vec![
                Spec::Pure(1),
                item(2, Names::long("flag"), Leaf::ReqFlag),
            ]);
            let o = OptSpec::plain(Spec::Seq(vec![Spec::wrap(W::Optional { catch: false }, 3, g)]));
            let p = build_options(&o);
            let invariants_ok = crate::outcome::guarded(0, || p.check_invariants(false))
                .0
                .is_ok();
            invariants_ok && matches!(crate::outcome::run(&p, &[]), Outcome::Panic(_))
        }
        // C05: `--bpaf-complete-rev=xyz` (not a number) was swallowed by the completion scanner:
        // the item was dropped and the rest of the line accepted
        "malformed_completion_marker_dropped" => {
            let o = OptSpec::plain(Spec::Seq(vec![item(1, Names::short('f'), Leaf::Switch)]));
            let p = build_options(&o);
            crate::outcome::run(&p, &bytes(&["--bpaf-complete-rev=xyz", "-f"])).is_value()
        }
        // C06: after the first repair of F18 an adjacent group with a defaulted word member
        // (`-a [Y]`, Y under fallback) took the default for `-a x` and left the invalid `x` to the
        // next positional
        "adjacent_default_masks_adjacent_invalid_word" => {
            let group = Spec::Adj(vec![
                item(1, Names::short('a'), Leaf::ReqFlag),
                Spec::wrap(W::Fallback, 3, pos(2, Ty::U32)),
            ]);
            let o = OptSpec::plain(Spec::Seq(vec![
                Spec::wrap(W::Many { catch: false }, 4, group),
                Spec::wrap(W::Many { catch: false }, 6, pos(5, Ty::Str)),
            ]));
            let p = build_options(&o);
            crate::outcome::run(&p, &bytes(&["-a", "x"])).is_value()
        }
        // C14: completing the attached value of the argument an adjacent group starts with
        // (`-v=<TAB>`) offers unrelated names instead of the value placeholder
        "completion_value_of_adjacent_group_first_argument" => {
            let group = Spec::Adj(vec![
                arg(1, Names::short('v'), Ty::U32),
                arg(2, Names::long("xray"), Ty::I64),
            ]);
            let o = OptSpec::plain(Spec::Seq(vec![
                Spec::wrap(W::Fallback, 4, arg(3, Names::long("juliet"), Ty::I64)),
                group,
            ]));
            let p = build_options(&o);
            let (out, _, _) = run_full(
                &p,
                &bytes(&["-v="]),
                &RunOpts {
                    comp: Some(0),
                    ..RunOpts::default()
                },
            );
            matches!(out, Outcome::Completion(t) if t.contains("--juliet"))
        }
        // C19: an adjacent group nested in another one was looked for from the first item of the
        // line, not from the start of the outer block: `--nov -N 1 6 --file v2 3 --nov -N 4`
        // attached `--file v2 3` to the second `--nov` block, which it precedes
        "nested_adjacent_group_found_left_of_outer_block" => {
            let inner = Spec::Adj(vec![
                item(3, Names::long("file"), Leaf::ReqFlag),
                pos(4, Ty::Str),
                pos(5, Ty::U32),
            ]);
            let outer = Spec::Adj(vec![
                item(1, Names::long("nov"), Leaf::ReqFlag),
                arg(2, Names::short('N'), Ty::U32),
                Spec::wrap(W::Optional { catch: false }, 6, inner),
            ]);
            let o = OptSpec::plain(Spec::Seq(vec![
                Spec::wrap(W::Many { catch: false }, 7, outer),
                Spec::wrap(W::Many { catch: false }, 9, pos(8, Ty::U32)),
            ]));
            let p = build_options(&o);
            crate::outcome::run(
                &p,
                &bytes(&["--nov", "-N", "1", "6", "--file", "v2", "3", "--nov", "-N", "4"]),
            )
            .is_value()
        }
        // C19: `construct!(construct!(tag, a), b).adjacent()` accepted `1 --tag 2`: the nested
        // first member did not fail fast while the start of the block was looked for
        "adjacent_group_nested_first_member_starts_at_word" => {
            let g = Spec::Adj(vec![
                Spec::Seq(vec![item(1, Names::long("tag"), Leaf::ReqFlag), pos(2, Ty::U32)]),
                pos(3, Ty::U32),
            ]);
            let o = OptSpec::plain(Spec::Seq(vec![g]));
            let p = build_options(&o);
            crate::outcome::run(&p, &bytes(&["1", "--tag", "2"])).is_value()
        }
        // C18: an adjacent group led by an env-backed argument never uses the variable
        "adjacent_group_led_by_variable_backed_member" => {
            let var = "BPAF_VERIF_WITNESS_F40";
            std::env::set_var(var, "12");
            let mut names = Names::long("alpha");
            names.envs = vec![var.to_string()];
            let g = Spec::Adj(vec![
                arg(1, names, Ty::U32),
                item(2, Names::long("beta"), Leaf::Switch),
            ]);
            let o = OptSpec::plain(Spec::Seq(vec![g]));
            let p = build_options(&o);
            let out = crate::outcome::run(&p, &[]);
            std::env::remove_var(var);
            !out.is_value()
        }
        // C18: the same under `fallback(..)`: the copy of the state kept the note to itself
        "invalid_variable_defeats_repeated_defaulted_item" => {
            let var = "BPAF_VERIF_WITNESS_F45";
            std::env::set_var(var, "zz");
            let mut names = Names::long("alpha");
            names.envs = vec![var.to_string()];
            let a = Spec::wrap(W::Fallback, 2, arg(1, names, Ty::U32));
            let o = OptSpec::plain(Spec::Seq(vec![Spec::wrap(W::Many { catch: false }, 3, a)]));
            let p = build_options(&o);
            let out = crate::outcome::run(&p, &bytes(&["--alpha", "1"]));
            std::env::remove_var(var);
            !out.is_value()
        }
        // C18: the same through a choice: `construct!([alpha, beta]).many()`, V=zz, `--alpha 1`
        "invalid_variable_defeats_repeated_item_in_a_choice" => {
            let var = "BPAF_VERIF_WITNESS_F47";
            std::env::set_var(var, "zz");
            let mut names = Names::long("alpha");
            names.envs = vec![var.to_string()];
            let a = Spec::Alt(vec![
                arg(1, names, Ty::U32),
                item(4, Names::long("beta"), Leaf::ReqFlag),
            ]);
            let o = OptSpec::plain(Spec::Seq(vec![Spec::wrap(W::Many { catch: false }, 3, a)]));
            let p = build_options(&o);
            let out = crate::outcome::run(&p, &bytes(&["--alpha", "1"]));
            std::env::remove_var(var);
            !out.is_value()
        }
        // C18: `long("alpha").env(V).argument::<u32>().many()` with V=zz refused `--alpha 1`
        "invalid_variable_defeats_repeated_item_on_the_line" => {
            let var = "BPAF_VERIF_WITNESS_F33";
            std::env::set_var(var, "zz");
            let mut names = Names::long("alpha");
            names.envs = vec![var.to_string()];
            let o = OptSpec::plain(Spec::Seq(vec![Spec::wrap(
                W::Many { catch: false },
                2,
                arg(1, names, Ty::U32),
            )]));
            let p = build_options(&o);
            let out = crate::outcome::run(&p, &bytes(&["--alpha", "1"]));
            std::env::remove_var(var);
            !out.is_value()
        }
        // C18: `construct!(alpha, env_only).optional()` given `--alpha 7` with the variable unset
        // ended with "--alpha is not expected in this context"
        "half_given_group_env_only_member_blames_given_item" => {
            let var = "BPAF_VERIF_WITNESS_F30";
            std::env::remove_var(var);
            let mut names = Names::default();
            names.envs = vec![var.to_string()];
            let g = Spec::Seq(vec![arg(1, Names::long("alpha"), Ty::U32), arg(2, names, Ty::U32)]);
            let o = OptSpec::plain(Spec::Seq(vec![Spec::wrap(
                W::Optional { catch: false },
                3,
                g,
            )]));
            let p = build_options(&o);
            match crate::outcome::run(&p, &bytes(&["--alpha", "7"])) {
                Outcome::Stderr { text } => !text.contains(var),
                _ => true,
            }
        }
        // C15: the static bash stub (`--bpaf-complete-style-bash`) rebuilds the command line as a
        // string and `eval`s it: `my-app $(cmd)<TAB>` runs `cmd`
        "bash_stub_evals_typed_words" => {
            let exe = std::env::current_exe().ok()?;
            let out = std::process::Command::new(exe)
                .arg("stub")
                .arg("bash")
                .env_clear()
                .output()
                .ok()?;
            let stub = String::from_utf8_lossy(&out.stdout).to_string();
            if !stub.contains("_bpaf_dynamic_completion") {
                return None;
            }
            let scratch = std::env::temp_dir().join(format!("bpaf-verif-stub-{}", std::process::id()));
            crate::props::c15::bash_stub_executes_typed_text(&stub, &scratch)?.0
        }
        // C04: a completion request without any word (only the revision item) and a switch whose
        // environment variable is set: `items.len() - 1` underflowed
        "completion_without_words_env_switch_underflow" => {
            let var = "BPAF_VERIF_WITNESS_F28";
            std::env::set_var(var, "1");
            let o = OptSpec::plain(Spec::Seq(vec![item(
                1,
                Names {
                    shorts: vec![],
                    longs: vec!["flag".to_string()],
                    envs: vec![var.to_string()],
                },
                Leaf::Switch,
            )]));
            let p = build_options(&o);
            let (out, _, _) = run_full(
                &p,
                &[],
                &RunOpts {
                    comp: Some(0),
                    ..RunOpts::default()
                },
            );
            std::env::remove_var(var);
            matches!(out, Outcome::Panic(_))
        }
        _ => return None,
    })
}

#[allow(dead_code)]
fn unused() {
    let _ = (arg(1, Names::default(), Ty::Str), pos(1, Ty::Str));
}
