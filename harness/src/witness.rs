//! Canonical witnesses of known findings (open and fixed).
//!
//! Each witness builds one specific definition, runs one specific vector against the real code
//! and reports whether the recorded defect still shows. `bin/check` prints a KNOWN-FINDING line
//! for an open finding only while its witness reproduces, and treats a reproducing witness of a
//! *fixed* finding as a violation.

use crate::build::build_options;
use crate::outcome::*;
use crate::spec::*;

fn bytes(v: &[&str]) -> Vec<Vec<u8>> {
    v.iter().map(|s| s.as_bytes().to_vec()).collect()
}

fn item(id: Id, names: Names, leaf: Leaf) -> Spec {
    Spec::Item(Item {
        id,
        names,
        help: None,
        leaf,
    })
}

fn arg(id: Id, names: Names, ty: Ty) -> Spec {
    item(
        id,
        names,
        Leaf::Arg {
            ty,
            metavar: format!("M{}", id),
            adjacent: false,
        },
    )
}

fn pos(id: Id, ty: Ty) -> Spec {
    item(
        id,
        Names::default(),
        Leaf::Pos {
            ty,
            metavar: format!("M{}", id),
            strict: Strict::Any,
        },
    )
}

fn both(c: char, l: &str) -> Names {
    Names {
        shorts: vec![c],
        longs: vec![l.to_string()],
        envs: vec![],
    }
}

/// true - the defect reproduces
pub fn run(name: &str) -> Option<bool> {
    Some(match name {
        // C04/C15: completion revision 9 without an application name used to panic
        "fish_no_name" => {
            let o = OptSpec::plain(Spec::Seq(vec![item(1, both('a', "alpha"), Leaf::Switch)]));
            let p = build_options(&o);
            let (out, _, _) = run_full(
                &p,
                &bytes(&["--al"]),
                &RunOpts {
                    comp: Some(9),
                    ..RunOpts::default()
                },
            );
            matches!(out, Outcome::Panic(_))
        }
        _ => return None,
    })
}

#[allow(dead_code)]
fn unused() {
    let _ = (arg(1, Names::default(), Ty::Str), pos(1, Ty::Str));
}
