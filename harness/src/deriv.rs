//! Derivations: sentences of a Spec together with the value they denote.
//!
//! `derive` walks a Spec, decides how often every item occurs, which alternative is taken and
//! which subcommand is entered, and returns the chosen occurrences ("atoms") *and* the value
//! the Spec's documented semantics assign to them. No parser is involved: the expected value
//! is known by construction. `order_units` then picks an order for the atoms (any order the
//! documentation allows), `render` picks a spelling for every named occurrence.
//!
//! Values placed on the line are unique within the line, so a returned value identifies which
//! argv item ended up in which field.

use crate::rng::Rng;
use crate::spec::*;

#[derive(Clone, Debug)]
pub enum Atom {
    Flag {
        item: Id,
        group: u32,
        names: Names,
    },
    Arg {
        item: Id,
        group: u32,
        names: Names,
        value: Vec<u8>,
        adjacent_only: bool,
    },
    Word {
        item: Id,
        value: Vec<u8>,
        strict: Strict,
    },
    /// adjacent group: stays contiguous, first atom first
    Block {
        group: u32,
        atoms: Vec<Atom>,
    },
    Cmd {
        id: Id,
        names: Vec<String>,
        shorts: Vec<char>,
        adjacent: bool,
        inner: Vec<Atom>,
    },
}

#[derive(Clone, Debug)]
pub struct Deriv {
    pub atoms: Vec<Atom>,
    pub value: V,
}

pub struct Gen<'a> {
    pub rng: &'a mut Rng,
    pub next_tok: u32,
    /// give string values hostile (but spelling-neutral) payloads
    pub hostile: bool,
    /// probability (in 1/8ths) that an optional thing is present
    pub presence: usize,
    /// maximum repetitions for many/some/count/last
    pub max_rep: usize,
    group: Option<u32>,
    /// no further positional of the current level may take a word
    pos_closed: bool,
    /// no later positional that takes words from the left of `--` can get one
    pos_closed_left: bool,
}

/// payloads that are legal in every spelling (do not start with `-` or `=`, not empty)
pub const NEUTRAL_PAYLOADS: &[&[u8]] = &[
    b"",
    b"=",
    b"a=b",
    b"==",
    b" x",
    b" ",
    b"\xc3\xa9",
    b"\xe6\x97\xa5\xe6\x9c\xac",
    b"--",
    b"-",
    b",;",
    b"'",
    b"\"",
    b"\\",
    b"$(x)",
    b"\t",
];

impl<'a> Gen<'a> {
    pub fn new(rng: &'a mut Rng) -> Self {
        Gen {
            rng,
            next_tok: 1,
            hostile: false,
            presence: 5,
            max_rep: 3,
            group: None,
            pos_closed: false,
            pos_closed_left: false,
        }
    }

    fn fresh(&mut self, ty: Ty) -> Vec<u8> {
        let n = self.next_tok;
        self.next_tok += 1;
        match ty {
            Ty::U32 | Ty::I64 => format!("{}", n).into_bytes(),
            Ty::Str | Ty::Os | Ty::Path => {
                let mut v = format!("v{}", n).into_bytes();
                if self.hostile {
                    let p = *self.rng.pick(NEUTRAL_PAYLOADS);
                    v.extend_from_slice(p);
                    if ty.is_bytes() && self.rng.chance(1, 4) {
                        v.extend_from_slice(b"\xff\xfe");
                    }
                }
                v
            }
        }
    }

    fn maybe(&mut self, forced: bool) -> bool {
        forced || self.rng.below(8) < self.presence
    }

    fn reps(&mut self, min: usize) -> usize {
        let hi = self.max_rep.max(min);
        self.rng.range(min, hi)
    }
}

thread_local! {
    /// the environment the real parser will see, as far as declared variables go (C18)
    static MODEL_ENV: std::cell::RefCell<std::collections::BTreeMap<String, Vec<u8>>> =
        std::cell::RefCell::new(std::collections::BTreeMap::new());
}

pub fn set_model_env(m: std::collections::BTreeMap<String, Vec<u8>>) {
    MODEL_ENV.with(|e| *e.borrow_mut() = m);
}

/// value of the first declared variable that is set
pub fn env_value(names: &Names) -> Option<Vec<u8>> {
    MODEL_ENV.with(|e| {
        let e = e.borrow();
        names.envs.iter().find_map(|n| e.get(n).cloned())
    })
}

/// Value of a Spec when nothing on the line belongs to it; None - it fails (required)
pub fn absent_value(spec: &Spec) -> Option<V> {
    match spec {
        Spec::Item(i) => {
            let env = env_value(&i.names);
            match &i.leaf {
                Leaf::Switch => Some(V::field(i.id, V::Bool(env.is_some()))),
                Leaf::Flag => Some(V::field(i.id, V::Tag(2 * i.id + u32::from(env.is_some())))),
                Leaf::ReqFlag => env.map(|_| V::field(i.id, V::Unit)),
                Leaf::Arg { ty, .. } => env
                    .and_then(|raw| ty.convert(&raw).ok())
                    .map(|v| V::field(i.id, v)),
                Leaf::Pos { .. } | Leaf::Any { .. } => None,
            }
        }
        Spec::Wrap { w, id, inner } => {
            let a = absent_value(inner);
            match w {
                W::Optional { .. } => Some(match a {
                    Some(v) => V::some(v),
                    None => V::none(),
                }),
                W::Many { .. } | W::Collect { .. } => Some(match a {
                    Some(v) => V::List(vec![v]),
                    None => V::List(vec![]),
                }),
                W::Some_ { .. } => a.map(|v| V::List(vec![v])),
                W::Count => Some(V::Int(if a.is_some() { 1 } else { 0 })),
                W::Last => a,
                W::Fallback | W::FallbackWithOk => Some(a.unwrap_or(V::Tag(*id))),
                W::FallbackWithErr => a,
                W::Guard => a,
                W::ParseStep | W::Map => a.map(|v| V::Tuple(vec![V::Tag(*id), v])),
                _ => a,
            }
        }
        Spec::Seq(xs) => {
            let mut vs = Vec::new();
            for x in xs {
                vs.push(absent_value(x)?);
            }
            Some(V::Tuple(vs))
        }
        Spec::Alt(xs) => xs
            .iter()
            .enumerate()
            .find_map(|(i, x)| absent_value(x).map(|v| V::Variant(i as u32, Box::new(v)))),
        Spec::Adj(_) | Spec::Cmd(_) | Spec::Fail(_) => None,
        Spec::Pure(id) => Some(V::Tag(*id)),
    }
}

/// can this spec ever consume an item
pub fn can_consume(spec: &Spec) -> bool {
    match spec {
        Spec::Item(_) | Spec::Cmd(_) => true,
        Spec::Wrap { inner, .. } => can_consume(inner),
        Spec::Seq(xs) | Spec::Alt(xs) | Spec::Adj(xs) => xs.iter().any(can_consume),
        Spec::Pure(_) | Spec::Fail(_) => false,
    }
}

/// does the spec contain `fail` on a path that must succeed
fn derivable(spec: &Spec) -> bool {
    match spec {
        Spec::Fail(_) => false,
        Spec::Item(_) | Spec::Pure(_) => true,
        Spec::Cmd(c) => derivable(&c.opts.root),
        Spec::Wrap { w, inner, .. } => match w {
            W::Optional { .. }
            | W::Many { .. }
            | W::Collect { .. }
            | W::Count
            | W::Fallback
            | W::FallbackWithOk => true,
            _ => derivable(inner),
        },
        Spec::Seq(xs) | Spec::Adj(xs) => xs.iter().all(derivable),
        Spec::Alt(xs) => xs.iter().any(derivable),
    }
}

/// Produce one derivation of the spec
pub fn derive(spec: &Spec, g: &mut Gen) -> Option<Deriv> {
    let mut atoms = Vec::new();
    let value = go(spec, g, false, &mut atoms)?;
    Some(Deriv { atoms, value })
}

fn go(spec: &Spec, g: &mut Gen, present: bool, out: &mut Vec<Atom>) -> Option<V> {
    match spec {
        Spec::Item(i) => {
            let group = g.group.unwrap_or(i.id);
            let env = env_value(&i.names);
            let nameless = !i.is_pos() && !i.names.has_name();
            if nameless || (env.is_some() && !present && g.rng.chance(1, 2)) {
                // nothing on the line: the declared variable (if set) stands in
                return if present { None } else { absent_value(spec) };
            }
            match &i.leaf {
                Leaf::Switch | Leaf::Flag => {
                    let on = g.maybe(present);
                    if !on && env.is_some() {
                        return absent_value(spec);
                    }
                    if on {
                        out.push(Atom::Flag {
                            item: i.id,
                            group,
                            names: i.names.clone(),
                        });
                    }
                    Some(V::field(
                        i.id,
                        match (&i.leaf, on) {
                            (Leaf::Switch, b) => V::Bool(b),
                            (_, true) => V::Tag(2 * i.id + 1),
                            (_, false) => V::Tag(2 * i.id),
                        },
                    ))
                }
                Leaf::ReqFlag => {
                    out.push(Atom::Flag {
                        item: i.id,
                        group,
                        names: i.names.clone(),
                    });
                    Some(V::field(i.id, V::Unit))
                }
                Leaf::Arg { ty, adjacent, .. } => {
                    let value = g.fresh(*ty);
                    let v = ty.convert(&value).ok()?;
                    out.push(Atom::Arg {
                        item: i.id,
                        group,
                        names: i.names.clone(),
                        value,
                        adjacent_only: *adjacent,
                    });
                    Some(V::field(i.id, v))
                }
                // `any` is outside the derivation grammar (it may take what belongs to others)
                Leaf::Any { .. } => None,
                Leaf::Pos { ty, strict, .. } => {
                    let value = g.fresh(*ty);
                    let v = ty.convert(&value).ok()?;
                    out.push(Atom::Word {
                        item: i.id,
                        value,
                        strict: *strict,
                    });
                    Some(V::field(i.id, v))
                }
            }
        }
        Spec::Wrap { w, id, inner } => match w {
            W::Optional { .. } => {
                if can_consume(inner) && derivable(inner) && g.maybe(present) {
                    Some(V::some(go(inner, g, true, out)?))
                } else {
                    absent_value(spec)
                }
            }
            W::Many { .. } | W::Collect { .. } | W::Some_ { .. } | W::Count | W::Last => {
                let min = usize::from(
                    present || matches!(w, W::Some_ { .. } | W::Last) && absent_value(inner).is_none(),
                );
                let k = if can_consume(inner) && derivable(inner) {
                    g.reps(min)
                } else {
                    0
                };
                if k == 0 {
                    return absent_value(spec);
                }
                let saved = g.group;
                if g.group.is_none() {
                    g.group = Some((1 << 20) + *id);
                }
                let mut vs = Vec::new();
                for _ in 0..k {
                    match go(inner, g, true, out) {
                        Some(v) => vs.push(v),
                        None => {
                            g.group = saved;
                            return None;
                        }
                    }
                }
                g.group = saved;
                Some(match w {
                    W::Count => V::Int(k as i64),
                    W::Last => vs.pop().unwrap(),
                    _ => V::List(vs),
                })
            }
            W::Fallback | W::FallbackWithOk | W::FallbackWithErr => {
                let must = present
                    || (matches!(w, W::FallbackWithErr) && absent_value(inner).is_none());
                if can_consume(inner) && derivable(inner) && g.maybe(must) {
                    go(inner, g, true, out)
                } else {
                    absent_value(spec)
                }
            }
            W::Guard => go(inner, g, present, out),
            W::ParseStep | W::Map => {
                let v = go(inner, g, present, out)?;
                Some(V::Tuple(vec![V::Tag(*id), v]))
            }
            _ => go(inner, g, present, out),
        },
        Spec::Seq(xs) => {
            let forced = if present {
                let cands: Vec<usize> = (0..xs.len()).filter(|i| can_consume(&xs[*i])).collect();
                if cands.is_empty() {
                    None
                } else {
                    Some(*g.rng.pick(&cands))
                }
            } else {
                None
            };
            let mut vs = Vec::new();
            for (ix, x) in xs.iter().enumerate() {
                let is_pos = first_leaf_is_pos(x);
                let mut force = forced == Some(ix);
                if is_pos {
                    // positionals take words in declaration order: once one is absent (or one
                    // repeats) none of the later ones can get a word
                    let side = first_leaf_strict(x);
                    if g.pos_closed || (g.pos_closed_left && side != Some(Strict::Strict)) {
                        vs.push(absent_value(x)?);
                        continue;
                    }
                    let later_ok = xs[ix + 1..]
                        .iter()
                        .filter(|y| first_leaf_is_pos(y))
                        .all(|y| absent_value(y).is_some());
                    if !later_ok {
                        force = true;
                    }
                }
                let before = out.len();
                vs.push(go(x, g, force, out)?);
                if is_pos && (out.len() == before || repeats(x)) {
                    // a word for the left side only leaves the right side of `--` to the strict
                    // positionals that follow
                    let any_later = xs[ix + 1..]
                        .iter()
                        .any(|y| first_leaf_strict(y) == Some(Strict::Any));
                    if first_leaf_strict(x) == Some(Strict::NonStrict) && !any_later {
                        g.pos_closed_left = true;
                    } else {
                        g.pos_closed = true;
                    }
                }
            }
            Some(V::Tuple(vs))
        }
        Spec::Alt(xs) => {
            let absent = absent_value(spec);
            if !present && absent.is_some() && g.rng.chance(1, 4) {
                return absent;
            }
            let cands: Vec<usize> = (0..xs.len())
                .filter(|i| can_consume(&xs[*i]) && derivable(&xs[*i]))
                .collect();
            if cands.is_empty() {
                return absent;
            }
            let ix = *g.rng.pick(&cands);
            let before = out.len();
            let v = go(&xs[ix], g, true, out)?;
            if out.len() == before && absent.is_some() {
                // the chosen alternative put nothing on the line: the first alternative that
                // succeeds on nothing is the one that answers
                return absent;
            }
            Some(V::Variant(ix as u32, Box::new(v)))
        }
        Spec::Adj(xs) => {
            let mut atoms = Vec::new();
            let mut vs = Vec::new();
            let saved = g.group;
            g.group = None;
            for (ix, x) in xs.iter().enumerate() {
                let r = go(x, g, ix == 0, &mut atoms);
                match r {
                    Some(v) => vs.push(v),
                    None => {
                        g.group = saved;
                        return None;
                    }
                }
            }
            g.group = saved;
            let group = g.group.unwrap_or_else(|| (2 << 20) + first_item_id(spec));
            out.push(Atom::Block { group, atoms });
            Some(V::Tuple(vs))
        }
        Spec::Cmd(c) => {
            let mut inner = Vec::new();
            let saved = g.group;
            let saved_closed = (g.pos_closed, g.pos_closed_left);
            g.group = None;
            g.pos_closed = false;
            g.pos_closed_left = false;
            let v = go(&c.opts.root, g, false, &mut inner);
            g.group = saved;
            g.pos_closed = saved_closed.0;
            g.pos_closed_left = saved_closed.1;
            let v = v?;
            out.push(Atom::Cmd {
                id: c.id,
                names: c.names.clone(),
                shorts: c.shorts.clone(),
                adjacent: c.adjacent,
                inner,
            });
            Some(V::field(c.id, v))
        }
        Spec::Pure(id) => Some(V::Tag(*id)),
        Spec::Fail(_) => None,
    }
}

fn first_leaf_strict(spec: &Spec) -> Option<Strict> {
    match spec {
        Spec::Item(i) => match &i.leaf {
            Leaf::Pos { strict, .. } => Some(*strict),
            _ => None,
        },
        Spec::Wrap { inner, .. } => first_leaf_strict(inner),
        _ => None,
    }
}

fn first_leaf_is_pos(spec: &Spec) -> bool {
    match spec {
        Spec::Item(i) => i.is_pos(),
        Spec::Wrap { inner, .. } => first_leaf_is_pos(inner),
        _ => false,
    }
}

fn repeats(spec: &Spec) -> bool {
    match spec {
        Spec::Wrap { w, inner, .. } => w.repeats() || repeats(inner),
        _ => false,
    }
}

pub fn first_item_id(spec: &Spec) -> Id {
    match spec {
        Spec::Item(i) => i.id,
        Spec::Wrap { inner, .. } => first_item_id(inner),
        Spec::Seq(xs) | Spec::Alt(xs) | Spec::Adj(xs) => xs.first().map_or(0, first_item_id),
        Spec::Cmd(c) => c.id,
        Spec::Pure(id) => *id,
        Spec::Fail(_) => 0,
    }
}

// ------------------------------------------------------------------------------------------
// ordering

#[derive(Clone, Debug, PartialEq, Eq)]
pub enum UKind {
    Flag {
        item: Id,
        names: Names,
    },
    Arg {
        item: Id,
        names: Names,
        value: Vec<u8>,
        adjacent_only: bool,
    },
    Word {
        item: Id,
        value: Vec<u8>,
    },
    DashDash,
    CmdName {
        id: Id,
        names: Vec<String>,
        shorts: Vec<char>,
    },
}

/// One occurrence in line order
#[derive(Clone, Debug, PartialEq, Eq)]
pub struct U {
    pub kind: UKind,
    /// number of command names to the left
    pub depth: usize,
    /// instance number of the adjacent block this belongs to
    pub block: Option<u32>,
    /// right of this level's `--`
    pub after_dd: bool,
}

#[derive(Clone, Copy, Debug, PartialEq, Eq)]
pub enum OrderStyle {
    /// named items first in generation order, then words, then the command
    Canonical,
    Random,
}

#[derive(Clone, Copy, Debug, PartialEq, Eq)]
pub enum DashDash {
    /// only when a strict positional requires it
    IfNeeded,
    /// whenever legal, with probability 1/2
    Random,
}

fn is_named_unit(a: &Atom) -> bool {
    match a {
        Atom::Flag { .. } | Atom::Arg { .. } => true,
        Atom::Block { atoms, .. } => atoms.first().map_or(true, is_named_unit),
        Atom::Word { .. } | Atom::Cmd { .. } => false,
    }
}

fn unit_group(a: &Atom) -> Option<u32> {
    match a {
        Atom::Flag { group, .. } | Atom::Arg { group, .. } | Atom::Block { group, .. } => {
            Some(*group)
        }
        _ => None,
    }
}

/// Decide an order for the atoms of one level (recursively for commands); None if the atoms
/// cannot be ordered legally (strict/non-strict constraints contradict declaration order)
pub fn order_units(
    atoms: &[Atom],
    rng: &mut Rng,
    style: OrderStyle,
    dd: DashDash,
) -> Option<Vec<U>> {
    let mut out = Vec::new();
    let mut blocks = 0u32;
    order_level(atoms, rng, style, dd, 0, &mut blocks, &mut out)?;
    Some(out)
}

fn order_level(
    atoms: &[Atom],
    rng: &mut Rng,
    style: OrderStyle,
    dd: DashDash,
    depth: usize,
    blocks: &mut u32,
    out: &mut Vec<U>,
) -> Option<()> {
    let mut named: Vec<&Atom> = atoms.iter().filter(|a| is_named_unit(a)).collect();
    let posn: Vec<&Atom> = atoms
        .iter()
        .filter(|a| !is_named_unit(a) && !matches!(a, Atom::Cmd { .. }))
        .collect();
    let cmds: Vec<&Atom> = atoms
        .iter()
        .filter(|a| matches!(a, Atom::Cmd { .. }))
        .collect();

    if style == OrderStyle::Random && named.len() > 1 {
        let orig = named.clone();
        rng.shuffle(&mut named);
        // restore the relative order inside every order group
        let mut groups: Vec<u32> = orig.iter().filter_map(|a| unit_group(a)).collect();
        groups.sort_unstable();
        groups.dedup();
        for gid in groups {
            let members: Vec<&Atom> = orig
                .iter()
                .copied()
                .filter(|a| unit_group(a) == Some(gid))
                .collect();
            let mut it = members.into_iter();
            for slot in named.iter_mut() {
                if unit_group(slot) == Some(gid) {
                    *slot = it.next().unwrap();
                }
            }
        }
    }

    // where `--` may go among the positional units
    let strict_of = |a: &Atom| match a {
        Atom::Word { strict, .. } => *strict,
        _ => Strict::NonStrict, // a positional block must stay left of `--`? keep it left
    };
    let lo = posn
        .iter()
        .rposition(|a| strict_of(a) == Strict::NonStrict)
        .map_or(0, |i| i + 1);
    let hi = posn
        .iter()
        .position(|a| strict_of(a) == Strict::Strict)
        .unwrap_or(posn.len());
    if lo > hi {
        return None;
    }
    let needs_dd = posn.iter().any(|a| strict_of(a) == Strict::Strict);
    let use_dd = needs_dd || (dd == DashDash::Random && cmds.is_empty() && rng.chance(1, 2));
    if needs_dd && !cmds.is_empty() {
        return None;
    }
    let split = if !use_dd {
        posn.len()
    } else if dd == DashDash::IfNeeded {
        // deterministic, so that two orders of the same atoms keep words on their side
        hi
    } else {
        rng.range(lo, hi)
    };

    // merge named units with the positional units left of the split
    let left_pos = &posn[..split];
    let mut seq: Vec<&Atom> = Vec::new();
    match style {
        OrderStyle::Canonical => {
            seq.extend(named.iter().copied());
            seq.extend(left_pos.iter().copied());
        }
        OrderStyle::Random => {
            let (mut ni, mut pi) = (0, 0);
            while ni < named.len() || pi < left_pos.len() {
                let take_named = if ni == named.len() {
                    false
                } else if pi == left_pos.len() {
                    true
                } else {
                    rng.below(named.len() - ni + left_pos.len() - pi) < named.len() - ni
                };
                if take_named {
                    seq.push(named[ni]);
                    ni += 1;
                } else {
                    seq.push(left_pos[pi]);
                    pi += 1;
                }
            }
        }
    }
    // adjacent commands: "you can mix chained commands with regular arguments that belong to the
    // top level parser" - a random number of the level's last named units goes between and after
    // the command blocks instead of in front of them
    let all_adjacent = !cmds.is_empty()
        && cmds
            .iter()
            .all(|c| matches!(c, Atom::Cmd { adjacent: true, .. }));
    let mut late: Vec<&Atom> = Vec::new();
    if all_adjacent && style == OrderStyle::Random && !use_dd {
        let named_at: Vec<usize> = (0..seq.len()).filter(|i| is_named_unit(seq[*i])).collect();
        let k = rng.below(named_at.len() + 1);
        for &i in named_at[named_at.len() - k..].iter().rev() {
            late.insert(0, seq.remove(i));
        }
    }
    for a in seq {
        emit(a, depth, None, false, blocks, out);
    }
    if use_dd {
        out.push(U {
            kind: UKind::DashDash,
            depth,
            block: None,
            after_dd: false,
        });
        for a in &posn[split..] {
            emit(a, depth, None, true, blocks, out);
        }
    }
    for c in cmds {
        if let Atom::Cmd {
            id,
            names,
            shorts,
            inner,
            adjacent,
        } = c
        {
            // `--` inside the block of an adjacent command turns the rest of the line into words
            let dd = if *adjacent { DashDash::IfNeeded } else { dd };
            out.push(U {
                kind: UKind::CmdName {
                    id: *id,
                    names: names.clone(),
                    shorts: shorts.clone(),
                },
                depth,
                block: None,
                after_dd: false,
            });
            order_level(inner, rng, style, dd, depth + 1, blocks, out)?;
            while !late.is_empty() && rng.chance(1, 2) {
                emit(late.remove(0), depth, None, false, blocks, out);
            }
        }
    }
    for a in late {
        emit(a, depth, None, false, blocks, out);
    }
    Some(())
}

fn emit(
    a: &Atom,
    depth: usize,
    block: Option<u32>,
    after_dd: bool,
    blocks: &mut u32,
    out: &mut Vec<U>,
) {
    match a {
        Atom::Flag { item, names, .. } => out.push(U {
            kind: UKind::Flag {
                item: *item,
                names: names.clone(),
            },
            depth,
            block,
            after_dd,
        }),
        Atom::Arg {
            item,
            names,
            value,
            adjacent_only,
            ..
        } => out.push(U {
            kind: UKind::Arg {
                item: *item,
                names: names.clone(),
                value: value.clone(),
                adjacent_only: *adjacent_only,
            },
            depth,
            block,
            after_dd,
        }),
        Atom::Word { item, value, .. } => out.push(U {
            kind: UKind::Word {
                item: *item,
                value: value.clone(),
            },
            depth,
            block,
            after_dd,
        }),
        Atom::Block { atoms, .. } => {
            *blocks += 1;
            let b = *blocks;
            for x in atoms {
                emit(x, depth, Some(b), after_dd, blocks, out);
            }
        }
        Atom::Cmd { .. } => unreachable!("commands are emitted by order_level"),
    }
}

// ------------------------------------------------------------------------------------------
// spelling

#[derive(Clone, Copy, Debug, PartialEq, Eq, Hash)]
pub enum ArgSpell {
    LongSep,
    LongEq,
    ShortSep,
    ShortEq,
    ShortJoined,
}

#[derive(Clone, Copy, Debug, PartialEq, Eq)]
pub enum SpellStyle {
    /// preferred name, name and value as separate items (`=` form for adjacent-only), no clusters
    Canonical,
    /// any name (aliases included), any spelling the value allows, clusters
    Random,
    /// any name, separated spellings only, no clusters (C03 leaves spelling alone)
    Separated,
}

#[derive(Clone, Copy, Debug, PartialEq, Eq, Hash)]
pub enum Role {
    Flag,
    Cluster,
    ArgName,
    ArgValue,
    ArgJoined,
    Word,
    CmdName,
    DashDash,
}

#[derive(Clone, Debug)]
pub struct Origin {
    /// index into the unit list (first unit for clusters)
    pub unit: usize,
    pub role: Role,
    pub depth: usize,
    pub block: Option<u32>,
    pub after_dd: bool,
}

#[derive(Clone, Debug, Default)]
pub struct Line {
    pub argv: Vec<Vec<u8>>,
    pub origin: Vec<Origin>,
    /// spellings used, for coverage accounting
    pub spells: Vec<ArgSpell>,
    pub clusters: usize,
}

/// which spellings are interchangeable for this value (C02's statement + documented limits)
pub fn allowed_spells(names: &Names, value: &[u8], adjacent_only: bool) -> Vec<ArgSpell> {
    let mut v = Vec::new();
    let sep_ok = !adjacent_only && !value.starts_with(b"-");
    if !names.longs.is_empty() {
        v.push(ArgSpell::LongEq);
        if sep_ok {
            v.push(ArgSpell::LongSep);
        }
    }
    if !names.shorts.is_empty() {
        v.push(ArgSpell::ShortEq);
        if sep_ok {
            v.push(ArgSpell::ShortSep);
        }
        // `-nVALUE`: an empty value, or one starting with `=`, would be a different spelling
        if !value.is_empty() && !value.starts_with(b"=") {
            v.push(ArgSpell::ShortJoined);
        }
    }
    v
}

fn short_bytes(c: char) -> Vec<u8> {
    let mut b = vec![b'-'];
    let mut tmp = [0u8; 4];
    b.extend_from_slice(c.encode_utf8(&mut tmp).as_bytes());
    b
}

pub fn spell_arg(name_short: Option<char>, name_long: Option<&str>, value: &[u8], sp: ArgSpell) -> Vec<Vec<u8>> {
    match sp {
        ArgSpell::LongSep => vec![
            format!("--{}", name_long.unwrap()).into_bytes(),
            value.to_vec(),
        ],
        ArgSpell::LongEq => {
            let mut b = format!("--{}=", name_long.unwrap()).into_bytes();
            b.extend_from_slice(value);
            vec![b]
        }
        ArgSpell::ShortSep => vec![short_bytes(name_short.unwrap()), value.to_vec()],
        ArgSpell::ShortEq => {
            let mut b = short_bytes(name_short.unwrap());
            b.push(b'=');
            b.extend_from_slice(value);
            vec![b]
        }
        ArgSpell::ShortJoined => {
            let mut b = short_bytes(name_short.unwrap());
            b.extend_from_slice(value);
            vec![b]
        }
    }
}

/// The argv items produced for a run of consecutive units (one unit, or a short cluster)
#[derive(Clone, Debug)]
pub struct Chunk {
    /// units lo..hi are spelled by this chunk
    pub lo: usize,
    pub hi: usize,
    pub items: Vec<Vec<u8>>,
    /// (unit index, role) per item
    pub roles: Vec<(usize, Role)>,
    pub spells: Vec<ArgSpell>,
    pub cluster: bool,
}

/// Choose a spelling for every unit; consecutive short flags may be merged into clusters
pub fn render_chunks(units: &[U], rng: &mut Rng, style: SpellStyle) -> Vec<Chunk> {
    render_chunks_cfg(units, rng, style, &[])
}

thread_local! {
    static NO_MULTI: std::cell::RefCell<Vec<Id>> = std::cell::RefCell::new(Vec::new());
}

fn no_multi(item: Id) -> bool {
    NO_MULTI.with(|n| n.borrow().contains(&item))
}

/// Same, but the listed items never appear in multi-letter short items (`-ab`, `-nVALUE`):
/// checks other than C02 use it to stay clear of C02's known findings
pub fn render_chunks_cfg(
    units: &[U],
    rng: &mut Rng,
    style: SpellStyle,
    avoid_multi: &[Id],
) -> Vec<Chunk> {
    NO_MULTI.with(|n| *n.borrow_mut() = avoid_multi.to_vec());
    let r = render_chunks_inner(units, rng, style);
    NO_MULTI.with(|n| n.borrow_mut().clear());
    r
}

fn render_chunks_inner(units: &[U], rng: &mut Rng, style: SpellStyle) -> Vec<Chunk> {
    let mut chunks = Vec::new();
    let mut i = 0;
    while i < units.len() {
        let u = &units[i];
        let single = |items: Vec<Vec<u8>>, roles: Vec<Role>, spells: Vec<ArgSpell>| Chunk {
            lo: i,
            hi: i + 1,
            roles: roles.into_iter().map(|r| (i, r)).collect(),
            items,
            spells,
            cluster: false,
        };
        match &u.kind {
            UKind::DashDash => {
                chunks.push(single(vec![b"--".to_vec()], vec![Role::DashDash], vec![]));
                i += 1;
            }
            UKind::Word { value, .. } => {
                chunks.push(single(vec![value.clone()], vec![Role::Word], vec![]));
                i += 1;
            }
            UKind::CmdName { names, shorts, .. } => {
                let name = if style == SpellStyle::Canonical {
                    names[0].clone()
                } else {
                    let n = names.len() + shorts.len();
                    let k = rng.below(n);
                    if k < names.len() {
                        names[k].clone()
                    } else {
                        shorts[k - names.len()].to_string()
                    }
                };
                chunks.push(single(vec![name.into_bytes()], vec![Role::CmdName], vec![]));
                i += 1;
            }
            UKind::Flag { names, item, .. } => {
                // try to start a cluster
                if style == SpellStyle::Random
                    && !names.shorts.is_empty()
                    && !no_multi(*item)
                    && rng.chance(1, 2)
                {
                    let mut j = i;
                    let mut body: Vec<u8> = vec![b'-'];
                    let mut tail: Option<Vec<u8>> = None;
                    let mut spells = Vec::new();
                    let mut members = 0;
                    while j < units.len() && members < 5 {
                        let x = &units[j];
                        if x.depth != u.depth || x.block != u.block || x.after_dd != u.after_dd {
                            break;
                        }
                        match &x.kind {
                            UKind::Flag { names, item, .. }
                                if !names.shorts.is_empty() && !no_multi(*item) =>
                            {
                                let c = *rng.pick(&names.shorts);
                                let mut tmp = [0u8; 4];
                                body.extend_from_slice(c.encode_utf8(&mut tmp).as_bytes());
                                members += 1;
                                j += 1;
                                if rng.chance(1, 3) {
                                    break;
                                }
                            }
                            UKind::Arg {
                                names,
                                value,
                                adjacent_only,
                                item,
                            } if !names.shorts.is_empty()
                                && members > 0
                                && !no_multi(*item)
                                && rng.chance(1, 2) =>
                            {
                                let c = *rng.pick(&names.shorts);
                                let sps = allowed_spells(names, value, *adjacent_only);
                                let joined = sps.contains(&ArgSpell::ShortJoined);
                                let sep = sps.contains(&ArgSpell::ShortSep);
                                let mut tmp = [0u8; 4];
                                if joined && (!sep || rng.chance(1, 2)) {
                                    body.extend_from_slice(c.encode_utf8(&mut tmp).as_bytes());
                                    body.extend_from_slice(value);
                                    spells.push(ArgSpell::ShortJoined);
                                    members += 1;
                                    j += 1;
                                } else if sep {
                                    body.extend_from_slice(c.encode_utf8(&mut tmp).as_bytes());
                                    tail = Some(value.clone());
                                    spells.push(ArgSpell::ShortSep);
                                    members += 1;
                                    j += 1;
                                }
                                break;
                            }
                            _ => break,
                        }
                    }
                    if members >= 2 {
                        let mut items = vec![body];
                        let mut roles = vec![(i, Role::Cluster)];
                        if let Some(t) = tail {
                            items.push(t);
                            roles.push((j - 1, Role::ArgValue));
                        }
                        chunks.push(Chunk {
                            lo: i,
                            hi: j,
                            items,
                            roles,
                            spells,
                            cluster: true,
                        });
                        i = j;
                        continue;
                    }
                    if members == 1 {
                        chunks.push(single(vec![body], vec![Role::Flag], vec![]));
                        i += 1;
                        continue;
                    }
                }
                let text = match style {
                    SpellStyle::Canonical => names.preferred().unwrap(),
                    _ => {
                        let n = names.shorts.len() + names.longs.len();
                        let k = rng.below(n);
                        if k < names.shorts.len() {
                            format!("-{}", names.shorts[k])
                        } else {
                            format!("--{}", names.longs[k - names.shorts.len()])
                        }
                    }
                };
                chunks.push(single(vec![text.into_bytes()], vec![Role::Flag], vec![]));
                i += 1;
            }
            UKind::Arg {
                names,
                value,
                adjacent_only,
                item,
            } => {
                let mut sps = allowed_spells(names, value, *adjacent_only);
                if no_multi(*item) {
                    sps.retain(|s| *s != ArgSpell::ShortJoined);
                }
                let sp = match style {
                    SpellStyle::Canonical => {
                        let pref = if names.longs.is_empty() {
                            [ArgSpell::ShortSep, ArgSpell::ShortEq]
                        } else {
                            [ArgSpell::LongSep, ArgSpell::LongEq]
                        };
                        if sps.contains(&pref[0]) {
                            pref[0]
                        } else {
                            pref[1]
                        }
                    }
                    SpellStyle::Separated => {
                        let c: Vec<ArgSpell> = sps
                            .iter()
                            .copied()
                            .filter(|s| matches!(s, ArgSpell::LongSep | ArgSpell::ShortSep))
                            .collect();
                        if c.is_empty() {
                            *rng.pick(&sps)
                        } else {
                            *rng.pick(&c)
                        }
                    }
                    SpellStyle::Random => *rng.pick(&sps),
                };
                let (s, l) = match style {
                    SpellStyle::Canonical => (
                        names.shorts.first().copied(),
                        names.longs.first().map(String::as_str),
                    ),
                    _ => (
                        if names.shorts.is_empty() {
                            None
                        } else {
                            Some(*rng.pick(&names.shorts))
                        },
                        if names.longs.is_empty() {
                            None
                        } else {
                            Some(rng.pick(&names.longs).as_str())
                        },
                    ),
                };
                let items = spell_arg(s, l, value, sp);
                let roles = if items.len() == 2 {
                    vec![Role::ArgName, Role::ArgValue]
                } else {
                    vec![Role::ArgJoined]
                };
                chunks.push(single(items, roles, vec![sp]));
                i += 1;
            }
        }
    }
    chunks
}

/// Concatenate chunks into an argument vector
pub fn assemble(units: &[U], chunks: &[Chunk]) -> Line {
    let mut line = Line::default();
    for c in chunks {
        for (item, (unit, role)) in c.items.iter().zip(c.roles.iter()) {
            let u = &units[*unit];
            line.argv.push(item.clone());
            line.origin.push(Origin {
                unit: *unit,
                role: *role,
                depth: u.depth,
                block: u.block,
                after_dd: u.after_dd,
            });
        }
        line.spells.extend(c.spells.iter().copied());
        line.clusters += usize::from(c.cluster);
    }
    line
}

/// `base` with the chunks covering `sub.lo..sub.hi` replaced by `sub`
pub fn substitute(base: &[Chunk], sub: &Chunk) -> Vec<Chunk> {
    let mut out = Vec::new();
    let mut placed = false;
    for c in base {
        if c.hi <= sub.lo || c.lo >= sub.hi {
            out.push(c.clone());
        } else if !placed {
            out.push(sub.clone());
            placed = true;
        }
    }
    out
}

/// Turn ordered units into an argument vector
pub fn render(units: &[U], rng: &mut Rng, style: SpellStyle) -> Line {
    let chunks = render_chunks(units, rng, style);
    assemble(units, &chunks)
}

pub fn render_cfg(units: &[U], rng: &mut Rng, style: SpellStyle, avoid_multi: &[Id]) -> Line {
    let chunks = render_chunks_cfg(units, rng, style, avoid_multi);
    assemble(units, &chunks)
}

/// Convenience: one sentence of the spec in the requested style
pub fn sentence(
    spec: &Spec,
    g: &mut Gen,
    order: OrderStyle,
    dd: DashDash,
    spell: SpellStyle,
) -> Option<(Deriv, Vec<U>, Line)> {
    sentence_cfg(spec, g, order, dd, spell, &[])
}

pub fn sentence_cfg(
    spec: &Spec,
    g: &mut Gen,
    order: OrderStyle,
    dd: DashDash,
    spell: SpellStyle,
    avoid_multi: &[Id],
) -> Option<(Deriv, Vec<U>, Line)> {
    let d = derive(spec, g)?;
    let units = order_units(&d.atoms, g.rng, order, dd)?;
    let line = render_cfg(&units, g.rng, spell, avoid_multi);
    Some((d, units, line))
}

/// visit every argument / word atom (recursively) with mutable access to its value
pub fn for_each_value_mut(atoms: &mut [Atom], f: &mut dyn FnMut(Id, bool, &mut Vec<u8>)) {
    for a in atoms {
        match a {
            Atom::Arg { item, value, .. } => f(*item, true, value),
            Atom::Word { item, value, .. } => f(*item, false, value),
            Atom::Block { atoms, .. } => for_each_value_mut(atoms, f),
            Atom::Cmd { inner, .. } => for_each_value_mut(inner, f),
            Atom::Flag { .. } => {}
        }
    }
}

/// One derivation in which the spec consumes at least one item
pub fn derive_present(spec: &Spec, g: &mut Gen) -> Option<Deriv> {
    let mut atoms = Vec::new();
    let value = go(spec, g, true, &mut atoms)?;
    Some(Deriv { atoms, value })
}
