//! Child-process mode: the harness re-executes itself so that the real process boundary
//! (`OptionParser::run`, `Args::current_args`, exit status, OS-provided environment) is part of
//! what is observed. The definition is rebuilt from (property, seed, case) coordinates passed in
//! an environment variable, so the child's argument vector is purely the test vector.

use crate::build::build_options;
use crate::outcome::normalise;
use crate::rng::Rng;
use crate::spec::OptSpec;

pub const CHILD_ENV: &str = "BPAF_HARNESS_CHILD";
pub const SENTINEL: &str = "BODY-REACHED";

pub fn spec_for(prop: &str, seed: u64, case: u64) -> OptSpec {
    let mut rng = Rng::for_case(seed, prop, case, 0);
    match prop {
        "C11" => crate::props::c11::gen_spec(&mut rng),
        "C15" => crate::props::c15::gen_spec(&mut rng),
        "C18" => crate::props::c18::gen_spec(&mut rng),
        p => panic!("no child generator for {}", p),
    }
}

/// If this process was started as a child, do the child's job and return its exit status
pub fn maybe_child() -> Option<i32> {
    let coord = std::env::var(CHILD_ENV).ok()?;
    let parts: Vec<&str> = coord.split(':').collect();
    if parts.len() != 4 {
        eprintln!("bad child coordinates");
        return Some(97);
    }
    let seed: u64 = parts[1].parse().ok()?;
    let case: u64 = parts[2].parse().ok()?;
    // the coordinates must not look like a declared variable to the parser under test
    std::env::remove_var(CHILD_ENV);
    let spec = spec_for(parts[0], seed, case);
    let parser = build_options(&spec);
    match parts[3] {
        "inner" => {
            let (o, _) = normalise(parser.run_inner(bpaf::Args::current_args()));
            println!("{}", o.show());
            Some(0)
        }
        "run" => {
            // the real thing: prints and exits on its own unless a value is produced
            let v = parser.run();
            println!("{} {}", SENTINEL, v.show());
            Some(0)
        }
        _ => Some(98),
    }
}
