//! C14 - dynamic completion offers real, visible, applicable candidates.
//!
//! Completion (revision 0) is requested for every kind of partially typed line derived from
//! sentences of generated definitions. Oracles: the outcome is always completion output; every
//! candidate is explained by the definition (visible name of an entered level matching what was
//! typed, visible command of the active level, value of the item's completer, or a metavariable
//! placeholder); hidden names and names of commands not entered never appear; for a freshly
//! typed prefix at an item start every visible, not yet given, top-level name of the active
//! level that extends it is offered.

use super::common::*;
use super::comp::*;
use super::helpmodel::*;
use super::Case;
use crate::deriv::*;
use crate::gen::GenOpts;
use crate::json::{show_argv, J};
use crate::outcome::Outcome;
use crate::spec::*;

pub fn opts() -> GenOpts {
    let mut o = GenOpts::general();
    o.completers = true;
    o.shell_completers = true;
    o.strict = false;
    o.cmd_depth = 2;
    o.max_named = 5;
    o.decor = true;
    // arguments may have an environment fallback; in a third of the cases those variables are set
    // (a set variable does not make the name any less available on the command line)
    o.env = true;
    o.env_only = false;
    o
}

/// unsets the variables it was given when the case is over
struct EnvGuard(Vec<String>);
impl Drop for EnvGuard {
    fn drop(&mut self) {
        for v in &self.0 {
            std::env::remove_var(v);
        }
    }
}

/// completer values attached to items: item id -> values
pub fn completer_values(s: &Spec, out: &mut Vec<(Vec<Id>, Vec<String>)>) {
    match s {
        Spec::Wrap { w, inner, .. } => {
            if let W::Complete(vals, _) = w {
                let mut items = Vec::new();
                inner.level_items(&mut items);
                out.push((
                    items.iter().map(|i| i.id).collect(),
                    vals.iter().map(|v| v.0.clone()).collect(),
                ));
            }
            completer_values(inner, out);
        }
        Spec::Seq(xs) | Spec::Alt(xs) | Spec::Adj(xs) => {
            for x in xs {
                completer_values(x, out);
            }
        }
        Spec::Cmd(c) => completer_values(&c.opts.root, out),
        _ => {}
    }
}

/// visible command names offered by the level's top-level choice of commands (a bare or
/// optional alternative whose branches are commands, possibly next to a positional)
fn top_level_commands(level: &OptSpec) -> Vec<String> {
    fn alt(s: &Spec) -> Option<&Vec<Spec>> {
        match s {
            Spec::Alt(xs) => Some(xs),
            Spec::Wrap {
                w: W::Optional { .. },
                inner,
                ..
            } => alt(inner),
            _ => None,
        }
    }
    let mut out = Vec::new();
    if let Spec::Seq(xs) = &level.root {
        for x in xs {
            if let Some(brs) = alt(x) {
                for b in brs {
                    if let Spec::Cmd(c) = b {
                        out.push(c.names[0].clone());
                    }
                }
            }
        }
    }
    out
}

/// visible named items that sit directly in the level's top-level sequence (not inside
/// alternatives, adjacent groups or hidden parts), with whether they may be given repeatedly
fn top_level_names(level: &OptSpec) -> Vec<(Item, bool)> {
    fn field(s: &Spec, rep: bool) -> Option<(Item, bool)> {
        match s {
            Spec::Item(i) if i.is_named() && i.names.has_name() => Some((i.clone(), rep)),
            Spec::Wrap { w, inner, .. } => match w {
                W::Hide => None,
                _ => field(inner, rep || w.repeats()),
            },
            _ => None,
        }
    }
    match &level.root {
        Spec::Seq(xs) => xs.iter().filter_map(|x| field(x, false)).collect(),
        _ => Vec::new(),
    }
}

struct Ctx<'a> {
    /// levels entered by the complete items of the line, root first
    path: Vec<&'a OptSpec>,
    all_levels: Vec<&'a OptSpec>,
    completers: Vec<(Vec<Id>, Vec<String>)>,
}

fn explain(ctx: &Ctx, typed: &str, c: &Cand) -> Result<&'static str, String> {
    let s = c.subst.as_str();
    if s.is_empty() {
        return Ok("placeholder");
    }
    let active = *ctx.path.last().unwrap();
    // names of hidden items / of levels that were not entered are never legitimate
    let mut hidden_names: Vec<String> = Vec::new();
    let mut foreign_names: Vec<String> = Vec::new();
    let mut path_names: Vec<(String, Id, Vec<char>)> = Vec::new(); // preferred, id, shorts
    for lvl in &ctx.all_levels {
        let on_path = ctx.path.iter().any(|p| std::ptr::eq(*p, *lvl));
        let view = level_view(lvl);
        for it in &view.items {
            if it.is_pos {
                continue;
            }
            let pref = match (&it.long, it.short) {
                (Some(l), _) => format!("--{}", l),
                (None, Some(sh)) => format!("-{}", sh),
                _ => continue,
            };
            if it.hidden {
                hidden_names.push(pref);
            } else if on_path {
                let mut shorts: Vec<char> = it.short.into_iter().collect();
                shorts.extend(it.alias_shorts.iter().copied());
                path_names.push((pref, it.id, shorts));
            } else {
                foreign_names.push(pref);
            }
        }
    }
    if s.starts_with('-') {
        // `--name=value` / `-n=value`: value must come from that item's completer
        if let Some((name, value)) = s.split_once('=') {
            if let Some((_, id, _)) = path_names.iter().find(|(p, _, sh)| {
                p == name || sh.iter().any(|c| format!("-{}", c) == name)
            }) {
                let ok = ctx
                    .completers
                    .iter()
                    .any(|(ids, vals)| ids.contains(id) && vals.iter().any(|v| v == value));
                if ok {
                    return Ok("completer-value-attached");
                }
            }
            // any long name spelled as typed (aliases) with a completer value
            if ctx
                .completers
                .iter()
                .any(|(_, vals)| vals.iter().any(|v| v == value))
                && typed.contains('=')
                && s.starts_with(typed.split('=').next().unwrap_or(""))
            {
                return Ok("completer-value-attached");
            }
        }
        if let Some((_, _, shorts)) = path_names.iter().find(|(p, _, _)| p == s) {
            let matches = typed.is_empty()
                || typed == "-"
                || (typed.starts_with("--") && s.starts_with(typed))
                || shorts.iter().any(|c| typed == format!("-{}", c));
            return if matches {
                Ok("visible-name")
            } else {
                Err(format!("{:?} does not match what was typed ({:?})", s, typed))
            };
        }
        if hidden_names.iter().any(|n| n == s) {
            return Err(format!("hidden name {:?} is offered", s));
        }
        if foreign_names.iter().any(|n| n == s) {
            return Err(format!(
                "name {:?} belongs to a command that was not entered",
                s
            ));
        }
    }
    // a command of the active level
    let view = level_view(active);
    if let Some(c) = view.cmds.iter().find(|c| c.name == s) {
        if c.hidden {
            return Err(format!("hidden command {:?} is offered", s));
        }
        let matches =
            c.name.starts_with(typed) || c.short.map_or(false, |sh| typed == sh.to_string());
        return if matches {
            Ok("visible-command")
        } else {
            Err(format!("command {:?} does not extend {:?}", s, typed))
        };
    }
    // a completer value of an item on the entered path
    if ctx
        .completers
        .iter()
        .any(|(_, vals)| vals.iter().any(|v| v == s))
    {
        // `-kpa`: the value is glued to the short name of its argument. The candidate replaces
        // the whole word, so the bare value would drop the name from the line: `-k=path` it is
        let mut cs = typed.chars();
        if let (Some('-'), Some(c), Some(_)) = (cs.next(), cs.next(), cs.next()) {
            let glued = c != '-'
                && !typed.contains('=')
                && path_names.iter().any(|(_, id, shorts)| {
                    shorts.contains(&c)
                        && ctx
                            .completers
                            .iter()
                            .any(|(ids, vals)| ids.contains(id) && vals.iter().any(|v| v == s))
                });
            if glued {
                return Err(format!(
                    "bare value {:?} offered for a value glued to its short name ({:?}): accepting it drops the name",
                    s, typed
                ));
            }
        }
        return Ok("completer-value");
    }
    Err(format!("candidate {:?} is not explained by the definition", s))
}

/// `image` / `images`, `--release` / `--release-lto` as alternatives: a name typed exactly is also
/// a freshly typed prefix of the longer sibling, which has to be offered too
fn exact_name_is_prefix_of_sibling(case: &mut Case) {
    let mut rng = case.rng(7);
    let commands = rng.chance(1, 2);
    let (short_name, long_name) = if commands {
        ("image", "images")
    } else {
        ("release", "release-lto")
    };
    let branch = |id: Id, name: &str| -> Spec {
        if commands {
            let mut opts = OptSpec::plain(Spec::Seq(vec![Spec::Item(Item {
                id: id + 1,
                names: Names::long("force"),
                help: None,
                leaf: Leaf::Switch,
            })]));
            opts.descr = Some(format!("D{}-descr", id));
            Spec::Cmd(Box::new(CmdSpec {
                id,
                names: vec![name.to_string()],
                shorts: vec![],
                help: None,
                adjacent: false,
                opts,
            }))
        } else {
            Spec::Item(Item {
                id,
                names: Names::long(name),
                help: None,
                leaf: Leaf::ReqFlag,
            })
        }
    };
    let (a, b2) = (branch(10, short_name), branch(20, long_name));
    let alts = if rng.chance(1, 2) { vec![a, b2] } else { vec![b2, a] };
    let b = Bench::new(case, OptSpec::plain(Spec::Seq(vec![Spec::Alt(alts)])));
    let typed = if commands {
        short_name.to_string()
    } else {
        format!("--{}", short_name)
    };
    let want = if commands {
        long_name.to_string()
    } else {
        format!("--{}", long_name)
    };
    let argv = vec![typed.clone().into_bytes()];
    let out = super::comp::complete(&b.parser, &argv, 0, None, fuel_for(&b.spec, &argv));
    case.rep.count("class:exact-name-is-prefix-of-sibling");
    if let Outcome::Completion(text) = &out {
        let r = super::comp::parse_rev0(text);
        let offered = r.items.iter().any(|c| c.subst == want)
            || r.echo.as_deref() == Some(want.as_str());
        if !offered {
            case.rep.violation(
                "visible-name-not-offered:exact-name-is-prefix-of-sibling",
                "completeness",
                case.index,
                case_json(&b.spec, &argv)
                    .set("typed", typed.as_str())
                    .set("expected_candidate", want.as_str())
                    .set("completion", crate::outcome::clip(text)),
            );
        }
    }
}

pub fn run_case(case: &mut Case) {
    if case.index % 32 == 17 {
        exact_name_is_prefix_of_sibling(case);
        return;
    }
    let mut rng = case.rng(0);
    let spec = {
        let o = opts();
        let depth = o.cmd_depth;
        let mut p = crate::gen::Pool::new(&mut rng, o);
        let mut spec = p.level(depth);
        // sometimes: a choice between subcommands and a positional (`app <FILE> | app sub ...`)
        if p.rng.chance(1, 8) {
            if let Spec::Seq(fields) = &mut spec.root {
                let has_pos_or_cmd = fields.iter().any(|f| {
                    let mut items = Vec::new();
                    f.level_items(&mut items);
                    let mut cmds = Vec::new();
                    f.level_cmds(&mut cmds);
                    items.iter().any(|i| i.is_pos()) || !cmds.is_empty()
                });
                if !has_pos_or_cmd && fields.len() < 10 {
                    let cmd = p.command(0);
                    let pos = Spec::Item(p.pos_item(Strict::Any));
                    fields.push(Spec::Alt(vec![cmd, pos]));
                }
            }
        }
        // a group title that is computed and comes out empty: `group_help(Doc::default())`
        fn empty_titles(s: &mut Spec, rng: &mut crate::rng::Rng, n: &mut u32) {
            match s {
                Spec::Wrap { w, inner, .. } => {
                    if let W::GroupHelp(h) = w {
                        if rng.chance(1, 6) {
                            *h = crate::build::EMPTY_DOC.to_string();
                            *n += 1;
                        }
                    }
                    empty_titles(inner, rng, n);
                }
                Spec::Seq(xs) | Spec::Alt(xs) | Spec::Adj(xs) => {
                    xs.iter_mut().for_each(|x| empty_titles(x, rng, n))
                }
                Spec::Cmd(c) => empty_titles(&mut c.opts.root, rng, n),
                _ => {}
            }
        }
        let mut n = 0;
        empty_titles(&mut spec.root, p.rng, &mut n);
        spec
    };
    let b = Bench::new(case, spec);
    if b.spec.pretty().contains(crate::build::EMPTY_DOC) {
        case.rep.count("definitions-with-an-empty-group-title");
    }
    let mut env_guard = EnvGuard(Vec::new());
    if rng.chance(1, 3) {
        // only plain fields of the top level (bare, optional or defaulted): under repetition, in
        // choices and groups a value supplied by the environment changes which parser answers
        fn plain_arg(s: &Spec) -> Option<&Item> {
            match s {
                Spec::Item(i) if i.is_arg() => Some(i),
                Spec::Wrap { w, inner, .. }
                    if w.transparent()
                        || matches!(
                            w,
                            W::Optional { .. } | W::Fallback | W::FallbackWithOk | W::Complete(..)
                        ) =>
                {
                    plain_arg(inner)
                }
                _ => None,
            }
        }
        if let Spec::Seq(fields) = &b.spec.root {
            for it in fields.iter().filter_map(plain_arg) {
                for v in &it.names.envs {
                    std::env::set_var(v, "7");
                    env_guard.0.push(v.clone());
                }
            }
        }
        if !env_guard.0.is_empty() {
            case.rep.count("cases-with-argument-variables-set");
        }
    }
    let mut all_levels_owned = Vec::new();
    levels(&b.spec, &mut Vec::new(), &mut all_levels_owned);
    let all_levels: Vec<&OptSpec> = all_levels_owned.iter().map(|l| l.1).collect();
    let mut completers = Vec::new();
    completer_values(&b.spec.root, &mut completers);
    let hidden = super::c02::hidden_items(&b.spec);

    let n_der = if case.thorough { 16 } else { 6 };
    for di in 0..n_der {
        let mut g = Gen::new(&mut rng);
        g.presence = 5;
        let d = match derive(&b.spec.root, &mut g) {
            Some(d) => d,
            None => {
                case.rep.count("underivable");
                continue;
            }
        };
        let units = match order_units(&d.atoms, &mut rng, OrderStyle::Random, DashDash::IfNeeded) {
            Some(u) => u,
            None => continue,
        };
        for _ in 0..(if case.thorough { 10 } else { 6 }) {
            // complete part of the line: the first k units
            let k = rng.below(units.len() + 1);
            if units[..k].iter().any(|u| u.kind == UKind::DashDash) {
                continue;
            }
            let prefix_units = &units[..k];
            let pline = render_cfg(prefix_units, &mut rng, SpellStyle::Random, &hidden);
            // levels entered so far
            let mut path: Vec<&OptSpec> = vec![&b.spec];
            for u in prefix_units {
                if let UKind::CmdName { id, .. } = &u.kind {
                    let mut cmds = Vec::new();
                    path.last().unwrap().root.level_cmds(&mut cmds);
                    if let Some(c) = cmds.into_iter().find(|c| c.id == *id) {
                        path.push(&c.opts);
                    }
                }
            }
            let active = *path.last().unwrap();
            let inside_block = k > 0
                && k < units.len()
                && units[k].block.is_some()
                && units[k].block == units[k - 1].block;
            let ctx = Ctx {
                path: path.clone(),
                all_levels: all_levels.clone(),
                completers: completers.clone(),
            };

            // what is being typed
            let tops = top_level_names(active);
            let mut fresh = true;
            let top_cmds = top_level_commands(active);
            let typed: String = match rng.below(9) {
                8 if !top_cmds.is_empty() => {
                    let c = rng.pick(&top_cmds).clone();
                    let n = c.chars().count();
                    let take = rng.range(1, n);
                    c.chars().take(take).collect()
                }
                8 => String::new(),
                0 => String::new(),
                1 => "-".to_string(),
                2 => "--".to_string(),
                3 | 4 => {
                    // a prefix of a visible long name of the active level
                    let longs: Vec<&String> = tops
                        .iter()
                        .filter_map(|(i, _)| i.names.longs.first())
                        .collect();
                    if longs.is_empty() {
                        "--".to_string()
                    } else {
                        let l = *rng.pick(&longs);
                        let n = l.chars().count();
                        let take = rng.range(1, n);
                        format!("--{}", l.chars().take(take).collect::<String>())
                    }
                }
                _ => {
                    // the next item of the sentence, cut short: may be a value, a word, a
                    // command name, a `name=value` item...
                    fresh = false;
                    if k < units.len() {
                        let next = render_cfg(&units[k..=k], &mut rng, SpellStyle::Random, &hidden);
                        let mut cut = String::new();
                        let mut extra: Vec<Vec<u8>> = Vec::new();
                        if let Some(first) = next.argv.first() {
                            // sometimes keep the name and type into the value
                            let item = if next.argv.len() == 2 && rng.chance(1, 2) {
                                extra.push(first.clone());
                                &next.argv[1]
                            } else {
                                first
                            };
                            let s = String::from_utf8_lossy(item).to_string();
                            let n = s.chars().count();
                            let take = rng.below(n + 1);
                            cut = s.chars().take(take).collect();
                        }
                        if !extra.is_empty() {
                            // typing the value of an argument: not an item start
                            let mut argv = pline.argv.clone();
                            argv.extend(extra);
                            argv.push(cut.clone().into_bytes());
                            judge(case, &b, &ctx, &argv, &cut, false, false, &tops, prefix_units, di);
                            continue;
                        }
                        cut
                    } else {
                        String::new()
                    }
                }
            };
            let mut argv = pline.argv.clone();
            argv.push(typed.clone().into_bytes());
            judge(
                case,
                &b,
                &ctx,
                &argv,
                &typed,
                fresh && !inside_block,
                true,
                &tops,
                prefix_units,
                di,
            );
        }
    }
}

#[allow(clippy::too_many_arguments)]
fn judge(
    case: &mut Case,
    b: &Bench,
    ctx: &Ctx,
    argv: &[Vec<u8>],
    typed: &str,
    demand_completeness: bool,
    item_start: bool,
    tops: &[(Item, bool)],
    prefix_units: &[U],
    di: usize,
) {
    let out = complete(&b.parser, argv, 0, None, fuel_for(&b.spec, argv));
    case.rep.exec(b.h, argv, 14, true);
    case.rep.count(&format!("outcome:{}", out.class()));
    // a shell asks with the marker on the command line: the answer is the same
    if di % 4 == 1 && !argv.iter().any(|a| a.starts_with(b"--bpaf-complete")) {
        let via = super::comp::complete_via_marker(&b.parser, argv, 0, None, fuel_for(&b.spec, argv));
        case.rep.count("requests-through-the-marker");
        if via != out && !matches!(via, Outcome::Panic(_) | Outcome::FuelExhausted) {
            case.rep.violation(
                &format!("marker-request-differs:{}", via.class()),
                "always-completion",
                case.index,
                case_json(&b.spec, argv)
                    .set("with_set_comp", out.show())
                    .set("with_marker_item", via.show()),
            );
        }
    }
    case.rep.count(if item_start {
        "typed:item-start"
    } else {
        "typed:value-position"
    });
    let text = match &out {
        Outcome::Completion(t) => t.clone(),
        Outcome::Panic(_) | Outcome::FuelExhausted => {
            let site = match &out {
                Outcome::Panic(m) => m.rsplit(" @ ").next().unwrap_or("?").to_string(),
                _ => "fuel".into(),
            };
            case.rep.violation(
                &format!("abnormal:{}", site),
                "total",
                case.index,
                case_json(&b.spec, argv).set("observed", out.show()),
            );
            return;
        }
        other => {
            case.rep.violation(
                &format!("not-completion:{}", other.class()),
                "always-completion",
                case.index,
                case_json(&b.spec, argv)
                    .set("typed", typed)
                    .set("observed", other.show()),
            );
            return;
        }
    };
    let r = parse_rev0(&text);
    case.rep.add("candidates", r.items.len() as u64);
    if r.echo.is_some() {
        case.rep.count("no-candidates(echo)");
    }
    for c in &r.items {
        match explain(ctx, typed, c) {
            Ok(kind) => case.rep.count(&format!("explained:{}", kind)),
            Err(why) => {
                // is the user typing the attached value of a hidden argument (`-N=`, `--name=v`)?
                let typed_name = typed.split('=').next().unwrap_or("");
                let value_of_hidden = typed.contains('=')
                    && ctx.all_levels.iter().any(|l| {
                        level_view(l).items.iter().any(|i| {
                            i.hidden
                                && (i
                                    .long
                                    .iter()
                                    .chain(i.alias_longs.iter())
                                    .any(|n| format!("--{}", n) == typed_name)
                                    || i.short
                                        .iter()
                                        .chain(i.alias_shorts.iter())
                                        .any(|c| format!("-{}", c) == typed_name))
                        })
                    });
                // ... or of an argument that is a member of an adjacent group?
                fn adjacent_first_args(s: &Spec, out: &mut Vec<Names>) {
                    fn first_item(s: &Spec) -> Option<&Item> {
                        match s {
                            Spec::Item(i) => Some(i),
                            Spec::Wrap { inner, .. } => first_item(inner),
                            _ => None,
                        }
                    }
                    match s {
                        Spec::Adj(xs) => {
                            for i in xs.iter().filter_map(first_item) {
                                if i.is_arg() {
                                    out.push(i.names.clone());
                                }
                            }
                            xs.iter().for_each(|x| adjacent_first_args(x, out));
                        }
                        Spec::Wrap { inner, .. } => adjacent_first_args(inner, out),
                        Spec::Seq(xs) | Spec::Alt(xs) => {
                            xs.iter().for_each(|x| adjacent_first_args(x, out))
                        }
                        Spec::Cmd(c) => adjacent_first_args(&c.opts.root, out),
                        _ => {}
                    }
                }
                let mut firsts = Vec::new();
                adjacent_first_args(&ctx.path[0].root, &mut firsts);
                let value_of_adjacent_first = typed.contains('=')
                    && firsts.iter().any(|n| {
                        n.longs.iter().any(|l| format!("--{}", l) == typed_name)
                            || n.shorts.iter().any(|c| format!("-{}", c) == typed_name)
                    });
                let sig = if why.contains("hidden") {
                    "hidden-offered"
                } else if why.contains("not entered") {
                    "foreign-level-offered"
                } else if why.contains("does not match") || why.contains("does not extend") {
                    if value_of_hidden {
                        "candidate-does-not-match-typed:attached-value-of-hidden-argument"
                    } else if value_of_adjacent_first {
                        "candidate-does-not-match-typed:attached-value-of-argument-in-adjacent-group"
                    } else {
                        "candidate-does-not-match-typed"
                    }
                } else {
                    "unexplained-candidate"
                };
                case.rep.violation(
                    sig,
                    "soundness",
                    case.index,
                    case_json(&b.spec, argv)
                        .set("typed", typed)
                        .set("problem", why)
                        .set("completion", crate::outcome::clip(&text)),
                );
            }
        }
    }
    // what was typed may coincide with a complete name (or alias) of an enclosing level: whether
    // an enclosing level's option is accepted right of a command name is not fixed by the
    // documentation (C01's carve-out), so nothing is demanded then
    let enclosing_name = ctx.path[..ctx.path.len() - 1].iter().any(|l| {
        level_view(l).items.iter().any(|i| {
            i.long
                .iter()
                .chain(i.alias_longs.iter())
                .any(|n| format!("--{}", n) == typed)
        })
    });
    if demand_completeness && enclosing_name {
        case.rep.inconclusive("typed-prefix-is-a-name-of-an-enclosing-level");
    }
    if demand_completeness && !enclosing_name {
        let depth = ctx.path.len() - 1;
        let given: Vec<Id> = prefix_units
            .iter()
            .filter(|u| u.depth == depth)
            .filter_map(|u| match &u.kind {
                UKind::Flag { item, .. } | UKind::Arg { item, .. } => Some(*item),
                _ => None,
            })
            .collect();
        for (it, repeats) in tops {
            if given.contains(&it.id) && !*repeats {
                continue;
            }
            let pref = match it.names.preferred() {
                Some(p) => p,
                None => continue,
            };
            let applies = typed.is_empty()
                || typed == "-"
                || (typed.starts_with("--") && pref.starts_with(typed));
            if !applies {
                continue;
            }
            case.rep.count("completeness-demands");
            if !r.items.iter().any(|c| c.subst == pref) {
                // what else is on offer tells the situations apart
                let has_pos_placeholder = r.items.iter().any(|c| c.subst.is_empty());
                let sig = format!(
                    "visible-name-not-offered:typed-{}{}",
                    if typed.is_empty() {
                        "empty"
                    } else if typed == "-" {
                        "dash"
                    } else {
                        "long-prefix"
                    },
                    if has_pos_placeholder {
                        ":with-placeholder"
                    } else {
                        ""
                    }
                );
                case.rep.violation(
                    &sig,
                    "completeness",
                    case.index,
                    case_json(&b.spec, argv)
                        .set("typed", typed)
                        .set("problem", format!("{:?} (item {}) is not offered", pref, it.id))
                        .set("completion", crate::outcome::clip(&text)),
                );
            }
        }
    }
    // command names: demanded for a fresh word prefix when the level has not taken a word yet
    let depth = ctx.path.len() - 1;
    let no_words_yet = !prefix_units.iter().any(|u| {
        u.depth == depth && matches!(u.kind, UKind::Word { .. } | UKind::CmdName { .. })
    }) && !prefix_units
        .iter()
        .any(|u| u.depth == depth && u.block.is_some());
    if demand_completeness && no_words_yet && !typed.starts_with('-') {
        let active = *ctx.path.last().unwrap();
        let has_positional = {
            let mut items = Vec::new();
            active.root.level_items(&mut items);
            items.iter().any(|i| i.is_pos())
        };
        // when what was typed is already a complete command name (or alias) bpaf prefers it over
        // longer names; the statement does not rank the two, nothing is demanded then
        let exact = level_view(active).cmds.iter().any(|c| {
            c.name == typed
                || c.alias_names.iter().any(|a| a == typed)
                || c.short.map_or(false, |s| s.to_string() == typed)
                || c.alias_shorts.iter().any(|s| s.to_string() == typed)
        });
        for name in top_level_commands(active) {
            if !name.starts_with(typed) || exact {
                continue;
            }
            case.rep.count("command-completeness-demands");
            if !r.items.iter().any(|c| c.subst == name) {
                let sig = format!(
                    "visible-command-not-offered{}",
                    if has_positional {
                        ":level-also-has-a-positional"
                    } else {
                        ""
                    }
                );
                case.rep.violation(
                    &sig,
                    "completeness",
                    case.index,
                    case_json(&b.spec, argv)
                        .set("typed", typed)
                        .set("problem", format!("command {:?} is not offered", name))
                        .set("completion", crate::outcome::clip(&text)),
                );
            }
        }
    }
    if di == 0 {
        case.rep.sample(
            J::obj()
                .set("definition", crate::outcome::clip(&b.spec.pretty()))
                .set("argv", show_argv(argv))
                .set("completion", crate::outcome::clip(&text)),
        );
    }
}
