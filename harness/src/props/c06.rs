//! C06 - absent is not invalid: defaults never mask bad values.
//!
//! Derivation-directed: take an accepted derivation, replace one typed occurrence by each kind of
//! invalid text -> the run must fail on stderr and, unless the item sits inside a choice between
//! alternatives, the message must carry the conversion error / guard message / parse message.
//! Sentences with few optional items present check that absent defaulted items never fail.

use super::common::*;
use super::Case;
use crate::build::{guard_msg, parse_msg};
use crate::deriv::*;
use crate::gen::{gen_options, GenOpts};
use crate::json::show_bytes;
use crate::outcome::Outcome;
use crate::spec::*;

pub fn opts() -> GenOpts {
    let mut o = GenOpts::general();
    o.types = vec![Ty::U32, Ty::I64, Ty::Str, Ty::Os, Ty::U32];
    o.hidden = false;
    o.nonascii = false;
    o.decor = false;
    o.cmd_depth = 1;
    o.max_named = 6;
    // "absent" also means: the declared environment variable is unset
    o.env = true;
    // (an adjacent group must start with a named item, so no environment-only items here)
    o.env_only = false;
    // a failure with items on the line is a failure, whatever `fallback_to_usage` says
    o.usage_fallback = true;
    // `--point X [Y]`: a defaulted word at the end of an adjacent group
    o.adjacent_optional_words = true;
    o.adjacent_cmds = true;
    // `sleep [SECONDS]` inside a chain of adjacent commands
    o.adjacent_cmd_default_word = true;
    o
}

struct Corruption {
    value: Vec<u8>,
    kind: &'static str,
    /// text the failure message must contain (when outside alternatives)
    message: String,
}

fn conv_error(ty: Ty, raw: &[u8]) -> Option<String> {
    let s = match std::str::from_utf8(raw) {
        Ok(s) => s,
        Err(_) => return Some("is not a valid utf8".to_string()),
    };
    match ty {
        Ty::U32 => s.parse::<u32>().err().map(|e| e.to_string()),
        Ty::I64 => s.parse::<i64>().err().map(|e| e.to_string()),
        _ => None,
    }
}

/// every way to make this occurrence invalid, given the wrappers around its item
fn corruptions(spec: &OptSpec, item: &Item, tok: u32) -> Vec<Corruption> {
    let mut out = Vec::new();
    let ty = match item.ty() {
        Some(t) => t,
        None => return out,
    };
    if ty.is_num() {
        for raw in [&b"x"[..], b"", b"1x", b"-", b"\xff", b"99999999999999999999999"] {
            if let Some(m) = conv_error(ty, raw) {
                out.push(Corruption {
                    value: raw.to_vec(),
                    kind: "conversion",
                    message: m,
                });
            }
        }
    } else if ty == Ty::Str {
        out.push(Corruption {
            value: b"v\xff\xfe".to_vec(),
            kind: "conversion-utf8",
            message: "is not a valid utf8".to_string(),
        });
    }
    // innermost guard / parse step around the item (wrappers are listed outermost first)
    if let Some(path) = spec.root.path_to(item.id) {
        let mut guard = None;
        let mut parse = None;
        for el in &path {
            if let PathEl::Wrap(w, id) = el {
                match w {
                    W::Guard => guard = Some(*id),
                    W::ParseStep => parse = Some(*id),
                    // checks applied to the number of occurrences never see the values
                    W::Count => {
                        guard = None;
                        parse = None;
                    }
                    _ => {}
                }
            }
            if matches!(el, PathEl::Cmd(_)) {
                guard = None;
                parse = None;
            }
        }
        if let Some(g) = guard {
            let value = if ty.is_num() {
                format!("{}", 900_000 + tok).into_bytes()
            } else {
                format!("bad{}", tok).into_bytes()
            };
            out.push(Corruption {
                value,
                kind: "guard",
                message: guard_msg(g),
            });
        }
        if let Some(p) = parse {
            let value = if ty.is_num() {
                format!("{}", 800_000 + tok).into_bytes()
            } else {
                format!("unp{}", tok).into_bytes()
            };
            out.push(Corruption {
                value,
                kind: "parse",
                message: parse_msg(p),
            });
        }
    }
    out
}

#[derive(PartialEq, Eq, Clone, Copy)]
enum Nesting {
    Plain,
    InGroup,
    InAlternative,
    InAdjacent,
    UnderCatch,
}

fn nesting(spec: &OptSpec, id: Id) -> Nesting {
    let path = match spec.root.path_to(id) {
        Some(p) => p,
        None => return Nesting::Plain,
    };
    let mut n = Nesting::Plain;
    // a member of a group (a sequence below the level's own sequence) is only decisive when
    // the rest of the group is there as well
    let seqs = path.iter().filter(|e| matches!(e, PathEl::Seq)).count();
    let last_cmd = path.iter().rposition(|e| matches!(e, PathEl::Cmd(_)));
    let seqs_in_level = match last_cmd {
        Some(c) => path[c..].iter().filter(|e| matches!(e, PathEl::Seq)).count(),
        None => seqs,
    };
    if seqs_in_level >= 2 {
        n = Nesting::InGroup;
    }
    for el in &path {
        match el {
            PathEl::Alt(_) => {
                if n != Nesting::UnderCatch {
                    n = Nesting::InAlternative;
                }
            }
            PathEl::Adj => {
                if n == Nesting::Plain || n == Nesting::InGroup {
                    n = Nesting::InAdjacent;
                }
            }
            PathEl::Wrap(
                W::Optional { catch: true }
                | W::Many { catch: true }
                | W::Some_ { catch: true }
                | W::Collect { catch: true },
                _,
            ) => n = Nesting::UnderCatch,
            _ => {}
        }
    }
    n
}

/// an adjacent command on the line whose defaulted word is not written
fn absent_default_word_of_adjacent_command(spec: &OptSpec, units: &[U]) -> bool {
    fn cmds<'a>(s: &'a Spec, out: &mut Vec<&'a CmdSpec>) {
        match s {
            Spec::Cmd(c) => {
                out.push(c);
                cmds(&c.opts.root, out);
            }
            Spec::Wrap { inner, .. } => cmds(inner, out),
            Spec::Seq(xs) | Spec::Alt(xs) | Spec::Adj(xs) => xs.iter().for_each(|x| cmds(x, out)),
            _ => {}
        }
    }
    let mut all = Vec::new();
    cmds(&spec.root, &mut all);
    for c in all {
        if !c.adjacent {
            continue;
        }
        let word = match &c.opts.root {
            Spec::Seq(xs) => xs.iter().find_map(|x| match x {
                Spec::Wrap {
                    w: W::Fallback | W::FallbackWithOk,
                    inner,
                    ..
                } => match &**inner {
                    Spec::Item(i) if i.is_pos() => Some(i.id),
                    _ => None,
                },
                _ => None,
            }),
            _ => None,
        };
        let word = match word {
            Some(w) => w,
            None => continue,
        };
        let names = units
            .iter()
            .filter(|u| matches!(&u.kind, UKind::CmdName { id, .. } if *id == c.id))
            .count();
        let words = units
            .iter()
            .filter(|u| matches!(&u.kind, UKind::Word { item, .. } if *item == word))
            .count();
        if names != words {
            return true;
        }
    }
    false
}

/// `sleep [SECONDS]` in a chain of adjacent commands next to trailing words of the enclosing level:
/// a word right behind the command's own items that is not a number is the command's word, given
/// and invalid - not something for the default to paper over
fn adjacent_command_defaulted_word(case: &mut Case) {
    let mut rng = case.rng(3);
    let mk = |id: Id, names: Names, leaf: Leaf| {
        Spec::Item(Item {
            id,
            names,
            help: None,
            leaf,
        })
    };
    let word = |id: Id, ty: Ty| {
        mk(
            id,
            Names::default(),
            Leaf::Pos {
                ty,
                metavar: format!("M{}", id),
                strict: Strict::Any,
            },
        )
    };
    let w = if rng.chance(1, 2) {
        W::Fallback
    } else {
        W::FallbackWithOk
    };
    let mut fields = Vec::new();
    let with_flag = rng.chance(1, 2);
    if with_flag {
        fields.push(mk(2, Names::long("force"), Leaf::Switch));
    }
    fields.push(Spec::wrap(w, 4, word(3, Ty::U32)));
    let mut opts = OptSpec::plain(Spec::Seq(fields));
    opts.descr = Some("D1-descr".into());
    let sleep = Spec::Cmd(Box::new(CmdSpec {
        id: 1,
        names: vec!["sleep".into()],
        shorts: vec![],
        help: None,
        adjacent: true,
        opts,
    }));
    let mut o2 = OptSpec::plain(Spec::Seq(vec![mk(6, Names::long("fast"), Leaf::Switch)]));
    o2.descr = Some("D5-descr".into());
    let eat = Spec::Cmd(Box::new(CmdSpec {
        id: 5,
        names: vec!["eat".into()],
        shorts: vec![],
        help: None,
        adjacent: true,
        opts: o2,
    }));
    let chain = if rng.chance(1, 2) {
        Spec::wrap(W::Many { catch: false }, 7, Spec::Alt(vec![sleep, eat]))
    } else {
        sleep
    };
    let is_chain = matches!(chain, Spec::Wrap { .. });
    let rest = Spec::wrap(W::Many { catch: false }, 9, word(8, Ty::Str));
    let b = Bench::new(case, OptSpec::plain(Spec::Seq(vec![chain, rest])));
    let mut argv: Vec<Vec<u8>> = vec![b"sleep".to_vec()];
    if with_flag && rng.chance(1, 2) {
        argv.push(b"--force".to_vec());
    }
    let bad: &[u8] = *rng.pick(&[&b"12x"[..], b"soon", b"1.5"]);
    argv.push(bad.to_vec());
    if with_flag && rng.chance(1, 3) && !argv.contains(&b"--force".to_vec()) {
        argv.push(b"--force".to_vec());
    }
    if is_chain && rng.chance(1, 2) {
        argv.push(b"eat".to_vec());
    }
    for k in 0..rng.below(3) {
        argv.push(format!("w{}", k).into_bytes());
    }
    let class = "invalid:conversion:adjacent-command-defaulted-word";
    let (out, _) = b.run(case, &argv, class);
    match &out {
        Outcome::Stderr { .. } => case.rep.count("adjacent-command-defaulted-word:rejected"),
        Outcome::Panic(_) | Outcome::FuelExhausted => {}
        other => case.rep.violation(
            "invalid-value-masked:adjacent-command-defaulted-word",
            "masking",
            case.index,
            b.detail(
                &argv,
                class,
                &format!("Stderr (the word {:?} follows the command's items and is not a number)", show_bytes(bad)),
                other,
            ),
        ),
    }
    // the same line with a number is a sentence
    let pos = argv.iter().position(|a| a.as_slice() == bad).unwrap_or(1);
    argv[pos] = b"15".to_vec();
    let (out, _) = b.run(case, &argv, "adjacent-command-defaulted-word:valid");
    if !matches!(out, Outcome::Value(_) | Outcome::Panic(_) | Outcome::FuelExhausted) {
        case.rep.violation(
            "adjacent-command-defaulted-word:valid-line-rejected",
            "defaults",
            case.index,
            b.detail(&argv, "adjacent-command-defaulted-word:valid", "a value", &out),
        );
    }
}

/// `construct!(--alpha A, --beta B).guard(..).fallback(..).many()`: a later block that is complete
/// on the line and fails the group's guard fails the run with the guard's message; the default of
/// the group is for a block that is absent
fn later_block_fails_group_guard(case: &mut Case) {
    let mut rng = case.rng(6);
    let arg = |id: Id, l: &str| {
        Spec::Item(Item {
            id,
            names: Names::long(l),
            help: None,
            leaf: Leaf::Arg {
                ty: Ty::U32,
                metavar: format!("M{}", id),
                adjacent: false,
            },
        })
    };
    let group = Spec::Seq(vec![arg(1, "alpha"), arg(2, "beta")]);
    let step = if rng.chance(1, 2) { W::Guard } else { W::ParseStep };
    let is_guard = step == W::Guard;
    let guarded = Spec::wrap(step, 3, group);
    let dflt = Spec::wrap(
        if rng.chance(1, 2) { W::Fallback } else { W::FallbackWithOk },
        4,
        guarded,
    );
    let rep = match rng.below(3) {
        0 => W::Many { catch: false },
        1 => W::Some_ { catch: false },
        _ => W::Collect { catch: false },
    };
    let root = Spec::Seq(vec![Spec::wrap(rep, 5, dflt)]);
    let b = Bench::new(case, OptSpec::plain(root));
    // the value that trips the step sits in the second or third block
    let bad = if is_guard { "900001" } else { "800001" };
    let n = rng.range(2, 3);
    let at = rng.range(1, n - 1);
    let mut argv: Vec<Vec<u8>> = Vec::new();
    for k in 0..n {
        argv.push(b"--alpha".to_vec());
        argv.push(if k == at { bad.as_bytes().to_vec() } else { format!("{}", k + 1).into_bytes() });
        argv.push(b"--beta".to_vec());
        argv.push(format!("{}", k + 10).into_bytes());
    }
    let msg = if is_guard { guard_msg(3) } else { parse_msg(3) };
    let class = "invalid:group-step:later-block-of-defaulted-repeated-group";
    let (out, _) = b.run(case, &argv, class);
    match &out {
        Outcome::Stderr { text } if text.contains(&msg) => case.rep.count("message-present"),
        Outcome::Panic(_) | Outcome::FuelExhausted => {}
        Outcome::Stderr { .. } => case.rep.violation(
            "message-lost:group-step:later-block-of-defaulted-repeated-group",
            "message",
            case.index,
            b.detail(&argv, class, &format!("Stderr mentioning {:?}", msg), &out),
        ),
        other => case.rep.violation(
            &format!(
                "invalid-value-masked:group-step:later-block-of-defaulted-repeated-group:{}",
                other.class()
            ),
            "masking",
            case.index,
            b.detail(&argv, class, &format!("Stderr mentioning {:?}", msg), &out),
        ),
    }
}

/// `construct!([construct!(KEY, VAL ..), N]).optional()` followed by `REST.many()`: a line with
/// fewer words than the first alternative needs, the first of them not a number. The word is
/// there for `N` and does not convert: the run fails, the default of the wrapper is for a line
/// that has no word at all
fn choice_of_words_under_default(case: &mut Case) {
    let mut rng = case.rng(7);
    let pos = |id: Id, ty: Ty| {
        Spec::Item(Item {
            id,
            names: Names::default(),
            help: None,
            leaf: Leaf::Pos {
                ty,
                metavar: format!("M{}", id),
                strict: Strict::Any,
            },
        })
    };
    let need = rng.range(2, 3);
    let words: Vec<Spec> = (0..need).map(|k| pos(1 + k as Id, Ty::Str)).collect();
    let mut branches = vec![Spec::Seq(words), pos(10, Ty::U32)];
    if rng.chance(1, 2) {
        branches.swap(0, 1);
    }
    let w = match rng.below(3) {
        0 => W::Optional { catch: false },
        1 => W::Fallback,
        _ => W::FallbackWithOk,
    };
    let root = Spec::Seq(vec![
        Spec::wrap(w, 20, Spec::Alt(branches)),
        Spec::wrap(W::Many { catch: false }, 21, pos(11, Ty::Str)),
    ]);
    let b = Bench::new(case, OptSpec::plain(root));
    let given = rng.range(1, need - 1);
    let argv: Vec<Vec<u8>> = (0..given).map(|k| format!("word{}", k).into_bytes()).collect();
    let class = "invalid:word-for-a-number:choice-of-words-under-default";
    let (out, _) = b.run(case, &argv, class);
    match &out {
        Outcome::Stderr { .. } => case.rep.count("message-present"),
        Outcome::Panic(_) | Outcome::FuelExhausted => {}
        other => case.rep.violation(
            &format!(
                "invalid-value-masked:choice-of-words-under-default:{}",
                other.class()
            ),
            "masking",
            case.index,
            b.detail(&argv, class, "Stderr (the word does not convert)", &out),
        ),
    }
    // the same definition on an empty line: the default
    let (out, _) = b.run(case, &[], "absent:choice-of-words-under-default");
    if !matches!(out, Outcome::Value(_) | Outcome::Panic(_) | Outcome::FuelExhausted) {
        case.rep.violation(
            "absent-not-defaulted:choice-of-words-under-default",
            "absence",
            case.index,
            b.detail(&[], "absent:choice-of-words-under-default", "a value", &out),
        );
    }
}

pub fn run_case(case: &mut Case) {
    if case.index % 16 == 7 {
        match (case.index / 16) % 3 {
            0 => adjacent_command_defaulted_word(case),
            1 => later_block_fails_group_guard(case),
            _ => choice_of_words_under_default(case),
        }
        return;
    }
    let mut rng = case.rng(0);
    let spec = gen_options(&mut rng, opts());
    let b = Bench::new(case, spec);
    let n_der = if case.thorough { 16 } else { 6 };
    for di in 0..n_der {
        let mut g = Gen::new(&mut rng);
        // alternate between "most things absent" and "most things present"
        g.presence = if di % 2 == 0 { 2 } else { 6 };
        let d = match derive(&b.spec.root, &mut g) {
            Some(d) => d,
            None => {
                case.rep.count("underivable");
                continue;
            }
        };
        let units = match order_units(&d.atoms, &mut rng, OrderStyle::Random, DashDash::IfNeeded) {
            Some(u) => u,
            None => continue,
        };
        if absent_default_word_of_adjacent_command(&b.spec, &units) {
            // the word that follows (a word of the enclosing level, the next command name) would
            // be read as the absent defaulted word of the command
            case.rep.count("skipped:adjacent-command-with-absent-defaulted-word");
            continue;
        }
        if super::c19::absent_words_then_word(&b.spec, &units) {
            // a block whose defaulted words are absent takes the word that follows it
            case.rep.count("skipped:word-right-after-block-with-absent-optional-words");
            continue;
        }
        let line = render(&units, &mut rng, SpellStyle::Canonical);
        // absent defaulted items never cause a failure; present valid ones are delivered
        let class = if di % 2 == 0 {
            "sentence-mostly-absent"
        } else {
            "sentence-mostly-present"
        };
        if !b.expect_value(case, &line.argv, &d.value, class, "defaults") {
            continue;
        }
        if di == 0 {
            case.rep.sample(
                case_json(&b.spec, &line.argv)
                    .set("class", class)
                    .set("denotes", d.value.show()),
            );
        }
        // a present-but-invalid value may also sit in the declared environment variable of an
        // item that is absent from the line: defaults must not mask it either
        {
            let on_line: Vec<Id> = units
                .iter()
                .filter_map(|u| match &u.kind {
                    UKind::Arg { item, .. } | UKind::Flag { item, .. } => Some(*item),
                    _ => None,
                })
                .collect();
            let mut root_items = Vec::new();
            b.spec.root.level_items(&mut root_items);
            if b.spec.fallback_to_usage && line.argv.is_empty() {
                // a failing run without any item prints the usage on stdout by request
                root_items.clear();
            }
            for it in root_items {
                let var = match it.names.envs.first() {
                    Some(v) if it.is_arg() && !on_line.contains(&it.id) => v.clone(),
                    _ => continue,
                };
                let ty = it.ty().unwrap_or(Ty::Str);
                let (bad, msg): (Vec<u8>, String) = if ty.is_num() {
                    (b"12x".to_vec(), conv_error(ty, b"12x").unwrap_or_default())
                } else if ty == Ty::Str {
                    (b"v\xff".to_vec(), "is not a valid utf8".to_string())
                } else {
                    continue;
                };
                let nest = nesting(&b.spec, it.id);
                // inside a choice the line may have picked a sibling alternative, in which case
                // this item's variable is legitimately never the deciding one
                // ... and a member of an adjacent group is only evaluated when the group's first
                // item is on the line
                if nest != Nesting::Plain {
                    continue;
                }
                use std::os::unix::ffi::OsStringExt;
                std::env::set_var(&var, std::ffi::OsString::from_vec(bad.clone()));
                let class = "invalid:environment-variable";
                let (out, _) = b.run(case, &line.argv, class);
                std::env::remove_var(&var);
                let expected = format!(
                    "Stderr mentioning {:?} ({}={:?}, item {} absent from the line)",
                    msg,
                    var,
                    show_bytes(&bad),
                    it.id
                );
                match &out {
                    Outcome::Stderr { text } => {
                        if text.contains(&msg) {
                            case.rep.count("message-present");
                        } else if nest != Nesting::InAlternative {
                            case.rep.violation(
                                "message-lost:environment-variable",
                                "message",
                                case.index,
                                b.detail(&line.argv, class, &expected, &out),
                            );
                        }
                    }
                    Outcome::Panic(_) | Outcome::FuelExhausted => {}
                    other => case.rep.violation(
                        &format!("invalid-value-masked:environment-variable:{}", other.class()),
                        "masking",
                        case.index,
                        b.detail(&line.argv, class, &expected, &out),
                    ),
                }
            }
        }
        // corrupt typed occurrences one at a time
        for (ui, u) in units.iter().enumerate() {
            let (id, after_dd) = match &u.kind {
                UKind::Arg { item, .. } | UKind::Word { item, .. } => (*item, u.after_dd),
                _ => continue,
            };
            let item = match b.spec.root.find_item(id) {
                Some(i) => i,
                None => continue,
            };
            let nest = nesting(&b.spec, id);
            if nest == Nesting::UnderCatch {
                case.rep.count("skipped:under-catch");
                continue;
            }
            // under last() only the final occurrence reaches guards/parse steps applied after it
            let under_last = b.spec.root.path_to(id).map_or(false, |p| {
                p.iter().any(|e| matches!(e, PathEl::Wrap(W::Last, _)))
            });
            let is_final_occurrence = !units[ui + 1..].iter().any(|x| match &x.kind {
                UKind::Arg { item, .. } | UKind::Word { item, .. } => *item == id,
                _ => false,
            });
            for c in corruptions(&b.spec, item, 40 + ui as u32) {
                if under_last && !is_final_occurrence && c.kind != "conversion" && c.kind != "conversion-utf8" {
                    continue;
                }
                // a word left of `--` cannot start with a dash or be empty-looking option
                if matches!(u.kind, UKind::Word { .. }) && !after_dd && c.value.starts_with(b"-")
                {
                    continue;
                }
                let mut mutated = units.clone();
                match &mut mutated[ui].kind {
                    UKind::Arg { value, .. } | UKind::Word { value, .. } => {
                        *value = c.value.clone();
                    }
                    _ => unreachable!(),
                }
                let mline = render(&mutated, &mut rng, SpellStyle::Canonical);
                let class = format!(
                    "invalid:{}:{}",
                    c.kind,
                    match nest {
                        Nesting::Plain => "plain",
                        Nesting::InGroup => "in-group",
                        Nesting::InAlternative => "in-alternative",
                        Nesting::InAdjacent => "in-adjacent",
                        Nesting::UnderCatch => "under-catch",
                    }
                );
                let (out, _) = b.run(case, &mline.argv, &class);
                let expected = format!(
                    "Stderr mentioning {:?} (value {:?} given to item {})",
                    c.message,
                    show_bytes(&c.value),
                    id
                );
                match &out {
                    Outcome::Stderr { text } => {
                        if text.contains(&c.message) {
                            case.rep.count("message-present");
                        } else if nest == Nesting::InAlternative {
                            case.rep.count("message-absent-inside-alternative(allowed)");
                        } else {
                            let sig = format!(
                                "message-lost:{}:{}",
                                c.kind,
                                if nest == Nesting::InAdjacent {
                                    "in-adjacent"
                                } else {
                                    "plain"
                                }
                            );
                            case.rep.violation(
                                &sig,
                                "message",
                                case.index,
                                b.detail(&mline.argv, &class, &expected, &out),
                            );
                        }
                    }
                    Outcome::Panic(_) | Outcome::FuelExhausted => {}
                    other => {
                        let sig = format!("invalid-value-masked:{}:{}", c.kind, other.class());
                        case.rep.violation(
                            &sig,
                            "masking",
                            case.index,
                            b.detail(&mline.argv, &class, &expected, &out),
                        );
                    }
                }
            }
        }
    }
}
