//! C06 - absent is not invalid: defaults never mask bad values.
//!
//! Derivation-directed: take an accepted derivation, replace one typed occurrence by each kind of
//! invalid text -> the run must fail on stderr and, unless the item sits inside a choice between
//! alternatives, the message must carry the conversion error / guard message / parse message.
//! Sentences with few optional items present check that absent defaulted items never fail.

use super::common::*;
use super::Case;
use crate::build::{guard_msg, parse_msg};
use crate::deriv::*;
use crate::gen::{gen_options, GenOpts};
use crate::json::show_bytes;
use crate::outcome::Outcome;
use crate::spec::*;

pub fn opts() -> GenOpts {
    let mut o = GenOpts::general();
    o.types = vec![Ty::U32, Ty::I64, Ty::Str, Ty::Os, Ty::U32];
    o.hidden = false;
    o.nonascii = false;
    o.decor = false;
    o.cmd_depth = 1;
    o.max_named = 6;
    // "absent" also means: the declared environment variable is unset
    o.env = true;
    // (an adjacent group must start with a named item, so no environment-only items here)
    o.env_only = false;
    // a failure with items on the line is a failure, whatever `fallback_to_usage` says
    o.usage_fallback = true;
    // `--point X [Y]`: a defaulted word at the end of an adjacent group
    o.adjacent_optional_words = true;
    o.adjacent_cmds = true;
    o
}

struct Corruption {
    value: Vec<u8>,
    kind: &'static str,
    /// text the failure message must contain (when outside alternatives)
    message: String,
}

fn conv_error(ty: Ty, raw: &[u8]) -> Option<String> {
    let s = match std::str::from_utf8(raw) {
        Ok(s) => s,
        Err(_) => return Some("is not a valid utf8".to_string()),
    };
    match ty {
        Ty::U32 => s.parse::<u32>().err().map(|e| e.to_string()),
        Ty::I64 => s.parse::<i64>().err().map(|e| e.to_string()),
        _ => None,
    }
}

/// every way to make this occurrence invalid, given the wrappers around its item
fn corruptions(spec: &OptSpec, item: &Item, tok: u32) -> Vec<Corruption> {
    let mut out = Vec::new();
    let ty = match item.ty() {
        Some(t) => t,
        None => return out,
    };
    if ty.is_num() {
        for raw in [&b"x"[..], b"", b"1x", b"-", b"\xff", b"99999999999999999999999"] {
            if let Some(m) = conv_error(ty, raw) {
                out.push(Corruption {
                    value: raw.to_vec(),
                    kind: "conversion",
                    message: m,
                });
            }
        }
    } else if ty == Ty::Str {
        out.push(Corruption {
            value: b"v\xff\xfe".to_vec(),
            kind: "conversion-utf8",
            message: "is not a valid utf8".to_string(),
        });
    }
    // innermost guard / parse step around the item (wrappers are listed outermost first)
    if let Some(path) = spec.root.path_to(item.id) {
        let mut guard = None;
        let mut parse = None;
        for el in &path {
            if let PathEl::Wrap(w, id) = el {
                match w {
                    W::Guard => guard = Some(*id),
                    W::ParseStep => parse = Some(*id),
                    // checks applied to the number of occurrences never see the values
                    W::Count => {
                        guard = None;
                        parse = None;
                    }
                    _ => {}
                }
            }
            if matches!(el, PathEl::Cmd(_)) {
                guard = None;
                parse = None;
            }
        }
        if let Some(g) = guard {
            let value = if ty.is_num() {
                format!("{}", 900_000 + tok).into_bytes()
            } else {
                format!("bad{}", tok).into_bytes()
            };
            out.push(Corruption {
                value,
                kind: "guard",
                message: guard_msg(g),
            });
        }
        if let Some(p) = parse {
            let value = if ty.is_num() {
                format!("{}", 800_000 + tok).into_bytes()
            } else {
                format!("unp{}", tok).into_bytes()
            };
            out.push(Corruption {
                value,
                kind: "parse",
                message: parse_msg(p),
            });
        }
    }
    out
}

#[derive(PartialEq, Eq, Clone, Copy)]
enum Nesting {
    Plain,
    InGroup,
    InAlternative,
    InAdjacent,
    UnderCatch,
}

fn nesting(spec: &OptSpec, id: Id) -> Nesting {
    let path = match spec.root.path_to(id) {
        Some(p) => p,
        None => return Nesting::Plain,
    };
    let mut n = Nesting::Plain;
    // a member of a group (a sequence below the level's own sequence) is only decisive when
    // the rest of the group is there as well
    let seqs = path.iter().filter(|e| matches!(e, PathEl::Seq)).count();
    let last_cmd = path.iter().rposition(|e| matches!(e, PathEl::Cmd(_)));
    let seqs_in_level = match last_cmd {
        Some(c) => path[c..].iter().filter(|e| matches!(e, PathEl::Seq)).count(),
        None => seqs,
    };
    if seqs_in_level >= 2 {
        n = Nesting::InGroup;
    }
    for el in &path {
        match el {
            PathEl::Alt(_) => {
                if n != Nesting::UnderCatch {
                    n = Nesting::InAlternative;
                }
            }
            PathEl::Adj => {
                if n == Nesting::Plain || n == Nesting::InGroup {
                    n = Nesting::InAdjacent;
                }
            }
            PathEl::Wrap(
                W::Optional { catch: true }
                | W::Many { catch: true }
                | W::Some_ { catch: true }
                | W::Collect { catch: true },
                _,
            ) => n = Nesting::UnderCatch,
            _ => {}
        }
    }
    n
}

pub fn run_case(case: &mut Case) {
    let mut rng = case.rng(0);
    let spec = gen_options(&mut rng, opts());
    let b = Bench::new(case, spec);
    let n_der = if case.thorough { 16 } else { 6 };
    for di in 0..n_der {
        let mut g = Gen::new(&mut rng);
        // alternate between "most things absent" and "most things present"
        g.presence = if di % 2 == 0 { 2 } else { 6 };
        let d = match derive(&b.spec.root, &mut g) {
            Some(d) => d,
            None => {
                case.rep.count("underivable");
                continue;
            }
        };
        let units = match order_units(&d.atoms, &mut rng, OrderStyle::Random, DashDash::IfNeeded) {
            Some(u) => u,
            None => continue,
        };
        if super::c19::absent_words_then_word(&b.spec, &units) {
            // a block whose defaulted words are absent takes the word that follows it
            case.rep.count("skipped:word-right-after-block-with-absent-optional-words");
            continue;
        }
        let line = render(&units, &mut rng, SpellStyle::Canonical);
        // absent defaulted items never cause a failure; present valid ones are delivered
        let class = if di % 2 == 0 {
            "sentence-mostly-absent"
        } else {
            "sentence-mostly-present"
        };
        if !b.expect_value(case, &line.argv, &d.value, class, "defaults") {
            continue;
        }
        if di == 0 {
            case.rep.sample(
                case_json(&b.spec, &line.argv)
                    .set("class", class)
                    .set("denotes", d.value.show()),
            );
        }
        // a present-but-invalid value may also sit in the declared environment variable of an
        // item that is absent from the line: defaults must not mask it either
        {
            let on_line: Vec<Id> = units
                .iter()
                .filter_map(|u| match &u.kind {
                    UKind::Arg { item, .. } | UKind::Flag { item, .. } => Some(*item),
                    _ => None,
                })
                .collect();
            let mut root_items = Vec::new();
            b.spec.root.level_items(&mut root_items);
            if b.spec.fallback_to_usage && line.argv.is_empty() {
                // a failing run without any item prints the usage on stdout by request
                root_items.clear();
            }
            for it in root_items {
                let var = match it.names.envs.first() {
                    Some(v) if it.is_arg() && !on_line.contains(&it.id) => v.clone(),
                    _ => continue,
                };
                let ty = it.ty().unwrap_or(Ty::Str);
                let (bad, msg): (Vec<u8>, String) = if ty.is_num() {
                    (b"12x".to_vec(), conv_error(ty, b"12x").unwrap_or_default())
                } else if ty == Ty::Str {
                    (b"v\xff".to_vec(), "is not a valid utf8".to_string())
                } else {
                    continue;
                };
                let nest = nesting(&b.spec, it.id);
                // inside a choice the line may have picked a sibling alternative, in which case
                // this item's variable is legitimately never the deciding one
                // ... and a member of an adjacent group is only evaluated when the group's first
                // item is on the line
                if nest != Nesting::Plain {
                    continue;
                }
                use std::os::unix::ffi::OsStringExt;
                std::env::set_var(&var, std::ffi::OsString::from_vec(bad.clone()));
                let class = "invalid:environment-variable";
                let (out, _) = b.run(case, &line.argv, class);
                std::env::remove_var(&var);
                let expected = format!(
                    "Stderr mentioning {:?} ({}={:?}, item {} absent from the line)",
                    msg,
                    var,
                    show_bytes(&bad),
                    it.id
                );
                match &out {
                    Outcome::Stderr { text } => {
                        if text.contains(&msg) {
                            case.rep.count("message-present");
                        } else if nest != Nesting::InAlternative {
                            case.rep.violation(
                                "message-lost:environment-variable",
                                "message",
                                case.index,
                                b.detail(&line.argv, class, &expected, &out),
                            );
                        }
                    }
                    Outcome::Panic(_) | Outcome::FuelExhausted => {}
                    other => case.rep.violation(
                        &format!("invalid-value-masked:environment-variable:{}", other.class()),
                        "masking",
                        case.index,
                        b.detail(&line.argv, class, &expected, &out),
                    ),
                }
            }
        }
        // corrupt typed occurrences one at a time
        for (ui, u) in units.iter().enumerate() {
            let (id, after_dd) = match &u.kind {
                UKind::Arg { item, .. } | UKind::Word { item, .. } => (*item, u.after_dd),
                _ => continue,
            };
            let item = match b.spec.root.find_item(id) {
                Some(i) => i,
                None => continue,
            };
            let nest = nesting(&b.spec, id);
            if nest == Nesting::UnderCatch {
                case.rep.count("skipped:under-catch");
                continue;
            }
            // under last() only the final occurrence reaches guards/parse steps applied after it
            let under_last = b.spec.root.path_to(id).map_or(false, |p| {
                p.iter().any(|e| matches!(e, PathEl::Wrap(W::Last, _)))
            });
            let is_final_occurrence = !units[ui + 1..].iter().any(|x| match &x.kind {
                UKind::Arg { item, .. } | UKind::Word { item, .. } => *item == id,
                _ => false,
            });
            for c in corruptions(&b.spec, item, 40 + ui as u32) {
                if under_last && !is_final_occurrence && c.kind != "conversion" && c.kind != "conversion-utf8" {
                    continue;
                }
                // a word left of `--` cannot start with a dash or be empty-looking option
                if matches!(u.kind, UKind::Word { .. }) && !after_dd && c.value.starts_with(b"-")
                {
                    continue;
                }
                let mut mutated = units.clone();
                match &mut mutated[ui].kind {
                    UKind::Arg { value, .. } | UKind::Word { value, .. } => {
                        *value = c.value.clone();
                    }
                    _ => unreachable!(),
                }
                let mline = render(&mutated, &mut rng, SpellStyle::Canonical);
                let class = format!(
                    "invalid:{}:{}",
                    c.kind,
                    match nest {
                        Nesting::Plain => "plain",
                        Nesting::InGroup => "in-group",
                        Nesting::InAlternative => "in-alternative",
                        Nesting::InAdjacent => "in-adjacent",
                        Nesting::UnderCatch => "under-catch",
                    }
                );
                let (out, _) = b.run(case, &mline.argv, &class);
                let expected = format!(
                    "Stderr mentioning {:?} (value {:?} given to item {})",
                    c.message,
                    show_bytes(&c.value),
                    id
                );
                match &out {
                    Outcome::Stderr { text } => {
                        if text.contains(&c.message) {
                            case.rep.count("message-present");
                        } else if nest == Nesting::InAlternative {
                            case.rep.count("message-absent-inside-alternative(allowed)");
                        } else {
                            let sig = format!(
                                "message-lost:{}:{}",
                                c.kind,
                                if nest == Nesting::InAdjacent {
                                    "in-adjacent"
                                } else {
                                    "plain"
                                }
                            );
                            case.rep.violation(
                                &sig,
                                "message",
                                case.index,
                                b.detail(&mline.argv, &class, &expected, &out),
                            );
                        }
                    }
                    Outcome::Panic(_) | Outcome::FuelExhausted => {}
                    other => {
                        let sig = format!("invalid-value-masked:{}:{}", c.kind, other.class());
                        case.rep.violation(
                            &sig,
                            "masking",
                            case.index,
                            b.detail(&mline.argv, &class, &expected, &out),
                        );
                    }
                }
            }
        }
    }
}
