//! Shared by C14/C15: running completion and parsing the revision-0 (test) format.

use crate::outcome::{run_full, Outcome, RunOpts};
use crate::spec::V;

#[derive(Clone, Debug, PartialEq, Eq)]
pub struct Cand {
    pub subst: String,
    pub pretty: String,
    pub group: String,
    pub help: String,
}

#[derive(Clone, Debug, Default)]
pub struct Rev0 {
    pub items: Vec<Cand>,
    /// Debug rendering of the requested shell completers, e.g. `File { mask: None }`
    pub ops: Vec<String>,
    /// no candidates at all: bpaf echoes what was typed
    pub echo: Option<String>,
}

pub fn parse_rev0(text: &str) -> Rev0 {
    let mut r = Rev0::default();
    if text == "\n" {
        // nothing to offer, an empty word was typed
        r.echo = Some(String::new());
        return r;
    }
    if !text.contains('\t') {
        if let Some(lit) = text.strip_suffix('\n') {
            if !lit.contains("\n\n") && !text.starts_with('\n') {
                r.echo = Some(lit.to_string());
                return r;
            }
        } else {
            // exactly one candidate with a replacement, nothing else
            r.items.push(Cand {
                subst: text.to_string(),
                pretty: text.to_string(),
                group: String::new(),
                help: String::new(),
            });
            return r;
        }
    }
    let (items, ops) = match text.split_once("\n\n") {
        Some((a, b)) => (a, b),
        None => (text, ""),
    };
    // the item block may be empty (only shell completers requested): text starts with "\n"
    let items = if text.starts_with('\n') { "" } else { items };
    let ops = if text.starts_with('\n') {
        text.trim_start_matches('\n')
    } else {
        ops
    };
    for line in items.split('\n') {
        if line.is_empty() {
            continue;
        }
        let f: Vec<&str> = line.splitn(4, '\t').collect();
        r.items.push(Cand {
            subst: f.first().unwrap_or(&"").to_string(),
            pretty: f.get(1).unwrap_or(&"").to_string(),
            group: f.get(2).unwrap_or(&"").to_string(),
            help: f.get(3).unwrap_or(&"").to_string(),
        });
    }
    for line in ops.split('\n') {
        if !line.trim().is_empty() {
            r.ops.push(line.to_string());
        }
    }
    r
}

/// the same request the way a shell makes it: the marker `--bpaf-complete-rev=N` is an item of
/// the command line
pub fn complete_via_marker(
    parser: &bpaf::OptionParser<V>,
    argv: &[Vec<u8>],
    rev: usize,
    name: Option<&str>,
    fuel: u64,
) -> Outcome {
    let mut with_marker = vec![format!("--bpaf-complete-rev={}", rev).into_bytes()];
    with_marker.extend(argv.iter().cloned());
    run_full(
        parser,
        &with_marker,
        &RunOpts {
            name: name.map(str::to_string),
            comp: None,
            fuel,
        },
    )
    .0
}

pub fn complete(
    parser: &bpaf::OptionParser<V>,
    argv: &[Vec<u8>],
    rev: usize,
    name: Option<&str>,
    fuel: u64,
) -> Outcome {
    run_full(
        parser,
        argv,
        &RunOpts {
            name: name.map(str::to_string),
            comp: Some(rev),
            fuel,
        },
    )
    .0
}
