//! Helpers shared by the monitors: definition alphabets, byte-noise vectors, mutators.

use crate::deriv::{Line, Role, UKind, U};
use crate::json::{show_argv, J};
use crate::rng::Rng;
use crate::spec::*;

/// Everything a user could type that means something to the definition
#[derive(Default, Clone, Debug)]
pub struct Alphabet {
    pub flags: Vec<Names>,
    pub args: Vec<Names>,
    pub cmds: Vec<String>,
    pub help: Vec<Names>,
    pub version: Vec<Names>,
    /// items that `any`/`literal` parsers of the definition look for
    pub literals: Vec<String>,
}

pub fn alphabet(o: &OptSpec) -> Alphabet {
    let mut a = Alphabet::default();
    fn go(o: &OptSpec, a: &mut Alphabet) {
        let mut items = Vec::new();
        o.root.level_items(&mut items);
        for i in items {
            if i.is_flag() {
                a.flags.push(i.names.clone());
            } else if i.is_arg() {
                a.args.push(i.names.clone());
            } else if let Leaf::Any { accept, .. } = &i.leaf {
                match accept {
                    AnyAccept::Exact(l) | AnyAccept::Prefix(l) | AnyAccept::Not(l) => {
                        a.literals.push(l.clone())
                    }
                    _ => {}
                }
            }
        }
        a.help.push(o.help_names());
        a.version.push(o.version_names());
        let mut cmds = Vec::new();
        o.root.level_cmds(&mut cmds);
        for c in cmds {
            a.cmds.extend(c.names.iter().cloned());
            a.cmds.extend(c.shorts.iter().map(char::to_string));
            go(&c.opts, a);
        }
    }
    go(o, &mut a);
    a
}

/// step budget for one rendering of help / documentation (steps are counted in the text
/// splitter and the argument scanner): far above anything a finite text needs
pub const RENDER_FUEL: u64 = 200_000;

pub fn fuel_for(o: &OptSpec, argv: &[Vec<u8>]) -> u64 {
    let items: usize = argv.iter().map(|a| 1 + a.len() / 2).sum();
    10_000 * (items as u64 + 1) * (o.root.nodes() as u64 + 1)
}

const JUNK: &[&[u8]] = &[
    b"",
    b"-",
    b"--",
    b"---",
    b"=",
    b"-=",
    b"--=",
    b"--=x",
    b"-a=",
    b"-=x",
    b"- ",
    b" ",
    b"\xff",
    b"-\xff",
    b"--\xff",
    b"--\xff=x",
    b"-\xc3",
    b"-\xc3\xa9=v",
    b"-\xc3\xa9",
    b"caf\xc3\xa9's",
    // a multi-byte character right in front of a space inside one item
    b"caf\xc3\xa9 latte",
    b"n\xc3\xa9 1",
    b"\xff oops",
    b"\xc3\xa9a');touch x;#",
    b"--na\xc3\xafve's",
    b"--x=\xff\xfe",
    b"word",
    b"w\xc3\xb6rd",
    b"-1",
    b"-12",
    b"-x",
    b"--y",
    b"--help",
    b"-h",
    b"--version",
    b"-V",
    b"-hh",
    b"-hV",
    b"--help=x",
    b"--\n",
    b"a\nb",
    b"\t",
    b"'",
    b"\"",
    b"\\",
    b"$(x)",
];

fn spell_name(n: &Names, rng: &mut Rng) -> Vec<u8> {
    let k = n.shorts.len() + n.longs.len();
    if k == 0 {
        return b"--".to_vec();
    }
    let i = rng.below(k);
    if i < n.shorts.len() {
        format!("-{}", n.shorts[i]).into_bytes()
    } else {
        format!("--{}", n.longs[i - n.shorts.len()]).into_bytes()
    }
}

thread_local! {
    /// upper bound for the length of the very long items noise vectors may contain
    pub static LONG_ITEM_MAX: std::cell::Cell<usize> = std::cell::Cell::new(1200);
}

/// Arbitrary byte-string vector biased towards the definition's own names
pub fn noise_vector(a: &Alphabet, rng: &mut Rng, max_len: usize) -> Vec<Vec<u8>> {
    let n = rng.below(max_len + 1);
    let mut v = Vec::new();
    let mut tok = 0;
    // evaluation cost grows with the third power of the number of items a cluster expands to
    // (repeated adjacent groups re-scan and clone the whole state per block): the long items of
    // one vector share one length budget
    let mut long_budget = LONG_ITEM_MAX.with(|m| m.get());
    for _ in 0..n {
        match rng.below(12) {
            0 | 1 if !a.flags.is_empty() => v.push(spell_name(rng.pick(&a.flags), rng)),
            2 | 3 if !a.args.is_empty() => {
                let mut name = spell_name(rng.pick(&a.args), rng);
                tok += 1;
                match rng.below(4) {
                    0 => {
                        name.extend_from_slice(format!("=n{}", tok).as_bytes());
                        v.push(name);
                    }
                    1 => {
                        name.extend_from_slice(format!("{}", tok).as_bytes());
                        v.push(name);
                    }
                    2 => v.push(name),
                    _ => {
                        v.push(name);
                        v.push(format!("{}", tok).into_bytes());
                    }
                }
            }
            4 if !a.cmds.is_empty() => v.push(rng.pick(&a.cmds).clone().into_bytes()),
            5 => {
                // cluster of declared shorts
                let mut b = vec![b'-'];
                for _ in 0..rng.range(1, 5) {
                    let pool: Vec<char> = a
                        .flags
                        .iter()
                        .chain(a.args.iter())
                        .flat_map(|n| n.shorts.iter().copied())
                        .collect();
                    if pool.is_empty() {
                        b.push(b'q');
                    } else {
                        let mut tmp = [0u8; 4];
                        b.extend_from_slice(rng.pick(&pool).encode_utf8(&mut tmp).as_bytes());
                    }
                }
                v.push(b);
            }
            6 if !a.literals.is_empty() && rng.chance(1, 2) => {
                let mut l = rng.pick(&a.literals).clone().into_bytes();
                if rng.chance(1, 4) {
                    tok += 1;
                    l.extend_from_slice(format!("{}", tok).as_bytes());
                }
                v.push(l);
            }
            6 => {
                tok += 1;
                v.push(format!("w{}", tok).into_bytes());
            }
            7 => {
                tok += 1;
                v.push(format!("{}", tok).into_bytes());
            }
            8 if rng.chance(1, 2) => {
                let h = if rng.chance(1, 2) {
                    rng.pick(&a.help).clone()
                } else {
                    rng.pick(&a.version).clone()
                };
                v.push(spell_name(&h, rng));
            }
            9 if long_budget >= 400 && rng.chance(1, 8) => {
                // very long cluster / word (evaluation cost grows quadratically with it for some
                // shapes, so the quick tier stays shorter)
                let len = rng.range(400, long_budget);
                long_budget -= len;
                let c = a
                    .flags
                    .iter()
                    .flat_map(|n| n.shorts.iter().copied())
                    .find(char::is_ascii)
                    .unwrap_or('q');
                let mut b = vec![b'-'];
                b.extend(std::iter::repeat(c as u8).take(len));
                v.push(b);
            }
            _ => v.push(rng.pick(JUNK).to_vec()),
        }
    }
    v
}

pub fn def_json(o: &OptSpec) -> J {
    J::Str(o.pretty())
}

pub fn case_json(o: &OptSpec, argv: &[Vec<u8>]) -> J {
    J::obj()
        .set("definition", def_json(o))
        .set("argv", show_argv(argv))
        .set(
            "argv_hex",
            J::Arr(
                argv.iter()
                    .map(|a| J::Str(a.iter().map(|b| format!("{:02x}", b)).collect::<String>()))
                    .collect(),
            ),
        )
}

/// names no generated definition ever declares
pub const FOREIGN_LONG: &str = "zzforeign";
pub const FOREIGN_SHORT: char = 'Z';

/// Single-edit mutations of a rendered sentence with a known expected class "must fail"
#[derive(Clone, Debug)]
pub struct Mutation {
    pub argv: Vec<Vec<u8>>,
    pub kind: &'static str,
    pub at: usize,
}

/// insert an undeclared flag / `--name=value` at item boundary `at` (left of any `--` only)
pub fn insert_foreign(line: &Line, at: usize, rng: &mut Rng) -> Mutation {
    let mut argv = line.argv.clone();
    let (item, kind): (Vec<u8>, &'static str) = match rng.below(7) {
        // looks like the completion marker but is not one: an item like any other
        6 => (
            b"--bpaf-complete-rev=xyz".to_vec(),
            "foreign-malformed-completion-marker",
        ),
        0 | 3 => (format!("--{}", FOREIGN_LONG).into_bytes(), "foreign-long"),
        1 | 4 => (
            format!("--{}=val", FOREIGN_LONG).into_bytes(),
            "foreign-long-eq",
        ),
        _ => (format!("-{}", FOREIGN_SHORT).into_bytes(), "foreign-short"),
    };
    argv.insert(at, item);
    Mutation { argv, kind, at }
}

/// boundaries (0..=len) that are left of every `--` of the line
pub fn boundaries_before_dd(line: &Line) -> Vec<usize> {
    let first_dd = line
        .origin
        .iter()
        .position(|o| o.role == Role::DashDash)
        .unwrap_or(line.argv.len());
    (0..=first_dd).collect()
}

// ------------------------------------------------------------------------------------------
// a built definition plus the bookkeeping every run needs

use super::Case;
use crate::outcome::{run_full, Hooks, Outcome, RunOpts};

pub struct Bench {
    pub spec: OptSpec,
    pub parser: bpaf::OptionParser<V>,
    pub alpha: Alphabet,
    pub h: u64,
}

impl Bench {
    pub fn new(case: &mut Case, spec: OptSpec) -> Bench {
        let h = spec.hash64();
        case.rep.definition(h);
        case.say(&format!("definition: {}", spec.pretty()));
        let parser = crate::build::build_options(&spec);
        let alpha = alphabet(&spec);
        Bench {
            spec,
            parser,
            alpha,
            h,
        }
    }

    /// Run the real parser, account for the execution and apply the hook oracles that hold for
    /// every property: no ledger mismatch, and a value only with every item consumed
    pub fn run(&self, case: &mut Case, argv: &[Vec<u8>], class: &str) -> (Outcome, Hooks) {
        self.run_opts(case, argv, class, &RunOpts::default(), 0)
    }

    pub fn run_opts(
        &self,
        case: &mut Case,
        argv: &[Vec<u8>],
        class: &str,
        opts: &RunOpts,
        mode: u64,
    ) -> (Outcome, Hooks) {
        let mut o = opts.clone();
        o.fuel = fuel_for(&self.spec, argv);
        let (out, _, hk) = run_full(&self.parser, argv, &o);
        case.rep.exec(self.h, argv, mode, !argv.is_empty());
        case.rep.count(&format!("class:{}", class));
        case.rep.count(&format!("outcome:{}", out.class()));
        case.rep.max("fuel_ticks_max", hk.ticks);
        case.rep.add("ledger_checks", hk.ledger_checks);
        case.rep.add("accept_events", hk.accepts.len() as u64);
        for m in &hk.ledger_mismatch {
            case.rep.violation(
                "ledger-mismatch",
                "ledger-hook",
                case.index,
                case_json(&self.spec, argv).set("event", m.as_str()),
            );
        }
        if hk.enabled && out.is_value() {
            match hk.accepts.last() {
                Some((_, _, ledger)) => {
                    case.rep.count("accept_ledgers_checked");
                    // every argument of the vector becomes at least one item of the state
                    if o.comp.is_none() && ledger.len() < argv.len() {
                        case.rep.violation(
                            "argument-lost-before-parsing",
                            "accept-hook",
                            case.index,
                            case_json(&self.spec, argv)
                                .set("items_in_state", ledger.len())
                                .set("arguments", argv.len())
                                .set("observed", out.show()),
                        );
                    }
                    if ledger.iter().any(|s| *s != 2) {
                        case.rep.violation(
                            "value-with-unconsumed-item",
                            "accept-hook",
                            case.index,
                            case_json(&self.spec, argv)
                                .set("ledger", format!("{:?}", ledger))
                                .set("observed", out.show()),
                        );
                    }
                }
                None => {
                    case.rep.violation(
                        "value-without-accept-event",
                        "accept-hook",
                        case.index,
                        case_json(&self.spec, argv).set("observed", out.show()),
                    );
                }
            }
        }
        if matches!(out, Outcome::Panic(_) | Outcome::FuelExhausted) {
            let site = match &out {
                Outcome::Panic(m) => m.rsplit(" @ ").next().unwrap_or("?").to_string(),
                _ => "fuel".to_string(),
            };
            case.rep.violation(
                &format!("abnormal:{}", site),
                "total",
                case.index,
                case_json(&self.spec, argv)
                    .set("class", class)
                    .set("observed", out.show()),
            );
        }
        (out, hk)
    }

    pub fn detail(&self, argv: &[Vec<u8>], class: &str, expected: &str, out: &Outcome) -> J {
        case_json(&self.spec, argv)
            .set("class", class)
            .set("expected", expected)
            .set("observed", out.show())
    }

    /// the vector must yield exactly this value
    pub fn expect_value(
        &self,
        case: &mut Case,
        argv: &[Vec<u8>],
        expected: &V,
        class: &str,
        sig_prefix: &str,
    ) -> bool {
        let (out, _) = self.run(case, argv, class);
        match &out {
            Outcome::Value(v) if v == expected => true,
            Outcome::Panic(_) | Outcome::FuelExhausted => false,
            Outcome::Value(_) => {
                case.rep.violation(
                    &format!("{}:value-differs", sig_prefix),
                    class,
                    case.index,
                    self.detail(argv, class, &format!("Ok({})", expected.show()), &out),
                );
                false
            }
            other => {
                case.rep.violation(
                    &format!("{}:rejected-as-{}", sig_prefix, other.class()),
                    class,
                    case.index,
                    self.detail(argv, class, &format!("Ok({})", expected.show()), &out),
                );
                false
            }
        }
    }

    /// the vector must be reported as a failure on stderr
    pub fn expect_stderr(
        &self,
        case: &mut Case,
        argv: &[Vec<u8>],
        class: &str,
        sig: &str,
        why: &str,
    ) -> Option<String> {
        let (out, _) = self.run(case, argv, class);
        match &out {
            Outcome::Stderr { text } => Some(text.clone()),
            Outcome::Panic(_) | Outcome::FuelExhausted => None,
            other => {
                case.rep.violation(
                    &format!("{}:{}", sig, other.class()),
                    class,
                    case.index,
                    self.detail(argv, class, &format!("Stderr ({})", why), &out),
                );
                None
            }
        }
    }
}

/// replace a unique byte token inside a value
pub fn subst_bytes(v: &mut V, old: &[u8], new: &[u8]) {
    match v {
        V::Bytes(b) => {
            if b == old {
                *b = new.to_vec();
            }
        }
        V::Opt(Some(x)) | V::Variant(_, x) | V::Field(_, x) => subst_bytes(x, old, new),
        V::List(xs) | V::Tuple(xs) => {
            for x in xs {
                subst_bytes(x, old, new);
            }
        }
        _ => {}
    }
}

/// the command level that is active after the first `upto` units of a line
pub fn level_at<'a>(spec: &'a OptSpec, units: &[U], upto: usize) -> &'a OptSpec {
    // follow the command names left of `upto`; a chain of adjacent commands returns to the level
    // that declares them, which the depth of the name tells
    let mut stack: Vec<&'a OptSpec> = vec![spec];
    for u in &units[..upto.min(units.len())] {
        if let UKind::CmdName { id, .. } = &u.kind {
            stack.truncate((u.depth + 1).min(stack.len()));
            let cur = *stack.last().unwrap();
            let mut cmds = Vec::new();
            cur.root.level_cmds(&mut cmds);
            if let Some(c) = cmds.into_iter().find(|c| c.id == *id) {
                stack.push(&c.opts);
            }
        } else {
            // an item of an outer level after a block of an adjacent command
            stack.truncate((u.depth + 1).min(stack.len()));
        }
    }
    stack.last().unwrap()
}

