//! C01 - parsing conforms to the declared grammar.
//!
//! Oracles: (1) derivations carry the value they denote; (2) the reference recogniser decides
//! accept/reject (+ value) for arbitrary vectors over the definition's alphabet. Both must agree
//! with `run_inner`; when they disagree with each other the case is inconclusive.

use super::common::*;
use super::Case;
use crate::build::build_options;
use crate::deriv::{order_units, render, DashDash, Gen, OrderStyle, SpellStyle};
use crate::gen::{gen_options, GenOpts};
use crate::model::{recognise, Verdict};
use crate::outcome::*;
use crate::rng::Rng;
use crate::spec::*;

/// vector over the definition's alphabet in the documented spellings only
fn conv_vector(a: &Alphabet, rng: &mut Rng, max_len: usize) -> Vec<Vec<u8>> {
    let n = rng.range(0, max_len);
    let mut v: Vec<Vec<u8>> = Vec::new();
    let mut tok = 100;
    let mut value = |rng: &mut Rng| -> Vec<u8> {
        tok += 1;
        match rng.below(10) {
            0..=4 => format!("v{}", tok).into_bytes(),
            5..=8 => format!("{}", tok).into_bytes(),
            _ => b"-".to_vec(),
        }
    };
    for _ in 0..n {
        match rng.below(10) {
            0..=2 if !a.flags.is_empty() => {
                let n = rng.pick(&a.flags).clone();
                let k = rng.below(n.shorts.len() + n.longs.len());
                let mut item = if k < n.shorts.len() {
                    format!("-{}", n.shorts[k]).into_bytes()
                } else {
                    format!("--{}", n.longs[k - n.shorts.len()]).into_bytes()
                };
                // a flag takes no value: `--verbose=yes`, `-v=`
                if rng.chance(1, 8) {
                    item.push(b'=');
                    if rng.chance(2, 3) {
                        item.extend(value(rng));
                    }
                }
                v.push(item);
            }
            3..=5 if !a.args.is_empty() => {
                let n = rng.pick(&a.args).clone();
                let val = value(rng);
                let k = rng.below(n.shorts.len() + n.longs.len());
                if k < n.shorts.len() {
                    let c = n.shorts[k];
                    match rng.below(4) {
                        0 => {
                            v.push(format!("-{}", c).into_bytes());
                            v.push(val);
                        }
                        1 => {
                            let mut b = format!("-{}=", c).into_bytes();
                            b.extend(val);
                            v.push(b);
                        }
                        2 if val != b"-" => {
                            let mut b = format!("-{}", c).into_bytes();
                            b.extend(val);
                            v.push(b);
                        }
                        _ => v.push(format!("-{}", c).into_bytes()),
                    }
                } else {
                    let l = &n.longs[k - n.shorts.len()];
                    match rng.below(3) {
                        0 => {
                            v.push(format!("--{}", l).into_bytes());
                            v.push(val);
                        }
                        1 => {
                            let mut b = format!("--{}=", l).into_bytes();
                            b.extend(val);
                            v.push(b);
                        }
                        _ => v.push(format!("--{}", l).into_bytes()),
                    }
                }
            }
            6 => {
                // cluster of declared flag letters, maybe ending in an argument letter
                let fl: Vec<char> = a
                    .flags
                    .iter()
                    .flat_map(|n| n.shorts.iter().copied())
                    .collect();
                if fl.len() >= 1 {
                    let mut b = String::from("-");
                    for _ in 0..rng.range(2, 4) {
                        b.push(*rng.pick(&fl));
                    }
                    let al: Vec<char> = a
                        .args
                        .iter()
                        .flat_map(|n| n.shorts.iter().copied())
                        .collect();
                    let mut bytes = b.into_bytes();
                    if !al.is_empty() && rng.chance(1, 3) {
                        let mut tmp = [0u8; 4];
                        bytes.extend_from_slice(rng.pick(&al).encode_utf8(&mut tmp).as_bytes());
                        if rng.chance(1, 2) {
                            let val = value(rng);
                            if val != b"-" {
                                bytes.extend(val);
                            }
                        }
                    }
                    v.push(bytes);
                }
            }
            7 if !a.cmds.is_empty() => v.push(rng.pick(&a.cmds).clone().into_bytes()),
            8 if rng.chance(1, 3) => v.push(b"--".to_vec()),
            _ => v.push(value(rng)),
        }
    }
    v
}

fn mutate(argv: &[Vec<u8>], a: &Alphabet, rng: &mut Rng) -> (Vec<Vec<u8>>, &'static str) {
    let mut v = argv.to_vec();
    match rng.below(6) {
        0 if !v.is_empty() => {
            let i = rng.below(v.len());
            v.remove(i);
            (v, "delete")
        }
        1 if !v.is_empty() => {
            let i = rng.below(v.len());
            let x = v[i].clone();
            let at = rng.below(v.len() + 1);
            v.insert(at, x);
            (v, "duplicate")
        }
        2 => {
            let at = rng.below(v.len() + 1);
            let extra = conv_vector(a, rng, 2);
            for (k, e) in extra.into_iter().enumerate() {
                v.insert(at + k, e);
            }
            (v, "insert")
        }
        3 if !v.is_empty() => {
            let i = rng.below(v.len());
            v[i] = match rng.below(3) {
                0 => b"x".to_vec(),
                1 => b"1x".to_vec(),
                _ => format!("--{}", FOREIGN_LONG).into_bytes(),
            };
            (v, "corrupt")
        }
        4 if v.len() >= 2 => {
            let i = rng.below(v.len() - 1);
            v.swap(i, i + 1);
            (v, "swap")
        }
        _ => {
            let at = rng.below(v.len() + 1);
            v.insert(at, format!("-{}", FOREIGN_SHORT).into_bytes());
            (v, "insert-foreign")
        }
    }
}

pub fn judge(
    case: &mut Case,
    spec: &OptSpec,
    parser: &bpaf::OptionParser<V>,
    argv: &[Vec<u8>],
    class: &str,
    denoted: Option<&V>,
    h: u64,
) {
    let verdict = recognise(spec, argv);
    let (o, hk) = run_hooked(parser, argv, fuel_for(spec, argv));
    case.rep.exec(h, argv, 0, !argv.is_empty());
    case.rep.count(&format!("class:{}", class));
    case.rep.count(&format!("outcome:{}", o.class()));
    case.rep.max("fuel_ticks_max", hk.ticks);
    case.rep.add("ledger_checks", hk.ledger_checks);
    case.rep.add("accept_events", hk.accepts.len() as u64);
    for m in &hk.ledger_mismatch {
        case.rep.violation(
            "ledger-mismatch",
            "ledger",
            case.index,
            case_json(spec, argv).set("event", m.as_str()),
        );
    }
    let detail = |expected: String| {
        case_json(spec, argv)
            .set("class", class)
            .set("expected", expected)
            .set("observed", o.show())
    };
    // the two oracles must agree with each other first
    if let Some(d) = denoted {
        match &verdict {
            Verdict::Accept(v) if v == d => {}
            Verdict::Outside(_) => {}
            other => {
                case.rep.inconclusive("model-vs-derivation");
                if case.verbose {
                    eprintln!(
                        "oracles disagree: derivation {} model {:?}\n{}",
                        d.show(),
                        other,
                        detail(String::new()).render()
                    );
                }
                return;
            }
        }
        match &o {
            Outcome::Value(v) if v == d => {}
            Outcome::Value(_) => case.rep.violation(
                "sentence-value-differs",
                "denotation",
                case.index,
                detail(format!("Ok({})", d.show())),
            ),
            other => case.rep.violation(
                &format!("sentence-rejected-as-{}", other.class()),
                "denotation",
                case.index,
                detail(format!("Ok({})", d.show())),
            ),
        }
        case.rep.count("judged:sentence");
        return;
    }
    match verdict {
        Verdict::Outside(why) => {
            case.rep.inconclusive(&format!("outside:{}", why));
        }
        Verdict::Accept(v) => {
            case.rep.count("judged:model-accept");
            match &o {
                Outcome::Value(x) if *x == v => {}
                Outcome::Value(_) => case.rep.violation(
                    "accepted-value-differs",
                    "recogniser-accept",
                    case.index,
                    detail(format!("Ok({})", v.show())),
                ),
                other => case.rep.violation(
                    &format!("accepted-but-{}", other.class()),
                    "recogniser-accept",
                    case.index,
                    detail(format!("Ok({})", v.show())),
                ),
            }
        }
        Verdict::Reject(why) => {
            case.rep.count("judged:model-reject");
            // a level with `fallback_to_usage` that is given nothing (but `--`) answers a failure
            // with its usage on stdout - by request
            let usage_by_request = matches!(o, Outcome::Stdout { .. }) && {
                let mut cur = spec;
                let mut after = 0;
                for (j, a) in argv.iter().enumerate() {
                    let mut cmds = Vec::new();
                    cur.root.level_cmds(&mut cmds);
                    let hit = cmds.into_iter().find(|c| {
                        c.names.iter().any(|n| n.as_bytes() == a.as_slice())
                            || c.shorts.iter().any(|s| s.to_string().as_bytes() == a.as_slice())
                    });
                    if let Some(c) = hit {
                        cur = &c.opts;
                        after = j + 1;
                    }
                }
                cur.fallback_to_usage && argv[after..].iter().all(|a| a == b"--")
            };
            if usage_by_request {
                case.rep.count("judged:usage-by-request");
            } else if !o.is_stderr() {
                case.rep.violation(
                    &format!("rejected-but-{}", o.class()),
                    "recogniser-reject",
                    case.index,
                    detail(format!("Stderr ({})", why)),
                );
            }
        }
    }
}

pub fn run_case(case: &mut Case) {
    let mut rng = case.rng(0);
    let spec = gen_options(&mut rng, GenOpts::conventional());
    let h = spec.hash64();
    case.rep.definition(h);
    let parser = build_options(&spec);
    let alpha = alphabet(&spec);
    case.say(&format!("definition: {}", spec.pretty()));

    let n_sent = if case.thorough { 40 } else { 16 };
    for si in 0..n_sent {
        let mut g = Gen::new(&mut rng);
        // every fourth sentence carries awkward values (spaces, `=`, bytes that are not UTF-8
        // for OS-string and path items): which items a value goes to does not depend on it
        g.hostile = si % 4 == 3;
        let hostile = g.hostile;
        let d = match crate::deriv::derive(&spec.root, &mut g) {
            Some(d) => d,
            None => {
                case.rep.count("underivable");
                break;
            }
        };
        // every eighth sentence: whole values that are empty or contain blanks, in any
        // spelling (`--name=`, `-n=`, `--name ""`): the item is present, its value is that text
        let mut d = d;
        if si % 8 == 5 {
            let mut items = Vec::new();
            spec.root.all_items(&mut items);
            let mut swaps: Vec<(Vec<u8>, Vec<u8>)> = Vec::new();
            crate::deriv::for_each_value_mut(&mut d.atoms, &mut |id, is_arg, value| {
                let stringy = items
                    .iter()
                    .find(|i| i.id == id)
                    .and_then(|i| i.ty())
                    .map_or(false, |t| !t.is_num());
                if is_arg && stringy && rng.chance(1, 2) {
                    // (values containing `=` in a cluster are C02's finding F05)
                    let new = rng.pick(&[&b""[..], b" ", b"", b"x y"]).to_vec();
                    swaps.push((value.clone(), new.clone()));
                    *value = new;
                }
            });
            for (old, new) in swaps {
                subst_bytes(&mut d.value, &old, &new);
            }
        }
        let units = match order_units(&d.atoms, &mut rng, OrderStyle::Random, DashDash::Random) {
            Some(u) => u,
            None => continue,
        };
        // the same derivation in several spellings
        for _ in 0..2 {
            // (awkward values are written detached: `-n<bytes that are not UTF-8>` is C02's
            // known finding F04, not a question of grammar)
            let style = if hostile {
                SpellStyle::Canonical
            } else {
                SpellStyle::Random
            };
            let line = render(&units, &mut rng, style);
            judge(case, &spec, &parser, &line.argv, "sentence", Some(&d.value), h);
            if si == 0 {
                case.rep.sample(
                    case_json(&spec, &line.argv)
                        .set("class", "sentence")
                        .set("denotes", d.value.show()),
                );
            }
            // single-edit mutations, judged by the recogniser
            for _ in 0..3 {
                let (m, kind) = mutate(&line.argv, &alpha, &mut rng);
                judge(case, &spec, &parser, &m, &format!("mutation:{}", kind), None, h);
            }
        }
    }
    let n_rand = if case.thorough { 80 } else { 24 };
    for _ in 0..n_rand {
        let v = conv_vector(&alpha, &mut rng, 7);
        judge(case, &spec, &parser, &v, "random", None, h);
    }
}
