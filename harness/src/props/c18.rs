//! C18 - environment variables are a fallback below the command line.
//!
//! Derivation-directed over (line, environment) pairs: the derivation generator knows the state
//! of every declared variable and computes the value the documented precedence gives; plus
//! (B) an invalid variable value must fail like an invalid typed value, (C) item and variable
//! both absent must fail naming the item or the variable, and a metamorphic clause: setting
//! undeclared variables never changes the outcome. Shards are single-threaded, so mutating the
//! process environment between cases is safe; a sample of cases is repeated in real child
//! processes whose environment is provided by the OS.

use super::common::*;
use super::Case;
use crate::child::CHILD_ENV;
use crate::deriv::*;
use crate::gen::{GenOpts, Pool};
use crate::json::{show_bytes, J};
use crate::outcome::{Outcome, RunOpts};
use crate::rng::Rng;
use crate::spec::*;
use std::collections::BTreeMap;
use std::ffi::OsString;
use std::os::unix::ffi::OsStringExt;
use std::os::unix::process::CommandExt;

pub fn gen_spec(rng: &mut Rng) -> OptSpec {
    let mut o = GenOpts::general();
    o.env = true;
    o.hidden = false;
    o.alts = false;
    o.adjacent = false;
    o.decor = false;
    o.nonascii = false;
    o.adjacent_args = false;
    o.cmd_depth = 1;
    o.max_named = 6;
    // `fallback_to_usage`: usage instead of a failure on an empty line, never instead of a value
    o.usage_fallback = true;
    o.types = vec![Ty::Str, Ty::U32, Ty::Os, Ty::Str];
    let mut p = Pool::new(rng, o);
    p.level(1)
}

fn declared(spec: &OptSpec) -> Vec<(String, Id, Option<Ty>)> {
    let mut items = Vec::new();
    spec.root.all_items(&mut items);
    let mut out = Vec::new();
    for i in items {
        for e in &i.names.envs {
            out.push((e.clone(), i.id, i.ty()));
        }
    }
    out
}

fn apply_env(vars: &[(String, Id, Option<Ty>)], state: &BTreeMap<String, Vec<u8>>) {
    for (name, _, _) in vars {
        match state.get(name) {
            Some(v) => std::env::set_var(name, OsString::from_vec(v.clone())),
            None => std::env::remove_var(name),
        }
    }
}

fn valid_state(
    vars: &[(String, Id, Option<Ty>)],
    rng: &mut Rng,
    tok: &mut u32,
) -> BTreeMap<String, Vec<u8>> {
    let mut m = BTreeMap::new();
    for (name, _, ty) in vars {
        if rng.chance(1, 2) {
            continue;
        }
        *tok += 1;
        let v: Vec<u8> = match ty {
            Some(Ty::U32 | Ty::I64) => format!("{}", 5000 + *tok).into_bytes(),
            Some(Ty::Os | Ty::Path) => match rng.below(4) {
                0 => Vec::new(),
                1 => format!("e{}\u{e9}", tok).into_bytes(),
                2 => {
                    let mut b = format!("e{}", tok).into_bytes();
                    b.extend_from_slice(b"\xff\xfe");
                    b
                }
                _ => format!("e{}", tok).into_bytes(),
            },
            Some(Ty::Str) => match rng.below(3) {
                0 => Vec::new(),
                1 => format!("e{} =x", tok).into_bytes(),
                _ => format!("e{}", tok).into_bytes(),
            },
            // flags: any value, including the empty one, counts as set
            None => match rng.below(3) {
                0 => Vec::new(),
                1 => b"0".to_vec(),
                _ => b"1".to_vec(),
            },
        };
        m.insert(name.clone(), v);
    }
    m
}

/// `fallback_to_usage`: a level that is given nothing and fails prints its usage on stdout
fn usage_by_request(spec: &OptSpec, argv: &[Vec<u8>]) -> bool {
    if argv.is_empty() {
        return spec.fallback_to_usage;
    }
    let mut cmds = Vec::new();
    spec.root.level_cmds(&mut cmds);
    cmds.iter().any(|c| {
        c.opts.fallback_to_usage
            && argv
                .last()
                .map_or(false, |l| c.names.iter().any(|n| n.as_bytes() == l.as_slice()))
    })
}

fn env_json(state: &BTreeMap<String, Vec<u8>>) -> J {
    J::Obj(
        state
            .iter()
            .map(|(k, v)| (k.clone(), J::Str(show_bytes(v))))
            .collect(),
    )
}

fn run_child(
    case: &Case,
    argv: &[Vec<u8>],
    state: &BTreeMap<String, Vec<u8>>,
    extra: &[(String, Vec<u8>)],
) -> Option<String> {
    let exe = std::env::current_exe().ok()?;
    let mut cmd = std::process::Command::new(exe);
    cmd.arg0("harnesschild");
    cmd.env_clear();
    cmd.env(
        CHILD_ENV,
        format!("{}:{}:{}:inner", case.prop, case.seed, case.index),
    );
    for (k, v) in state {
        cmd.env(k, OsString::from_vec(v.clone()));
    }
    for (k, v) in extra {
        cmd.env(k, OsString::from_vec(v.clone()));
    }
    for a in argv {
        cmd.arg(OsString::from_vec(a.clone()));
    }
    let out = cmd.output().ok()?;
    Some(String::from_utf8_lossy(&out.stdout).trim_end().to_string())
}

/// (D) a group under `optional`/`many`/... given only in part: its other required member is
/// absent from the line and so is its variable - the run fails naming that member or its variable
/// (and succeeds once the variable is set)
fn half_given_group(case: &mut Case) {
    let mut rng = case.rng(2);
    let var = format!("BPAF_VERIF_HALF_{}", case.index % 89);
    let env_only = rng.chance(2, 3);
    let a = Item {
        id: 1,
        names: Names::long("alpha"),
        help: None,
        leaf: Leaf::Arg {
            ty: Ty::U32,
            metavar: "A".into(),
            adjacent: false,
        },
    };
    let mut bn = if env_only {
        Names::default()
    } else {
        Names::long("beta")
    };
    bn.envs = vec![var.clone()];
    let flag = rng.chance(1, 3);
    let bi = Item {
        id: 2,
        names: bn,
        help: None,
        leaf: if flag {
            Leaf::ReqFlag
        } else {
            Leaf::Arg {
                ty: Ty::U32,
                metavar: "B".into(),
                adjacent: false,
            }
        },
    };
    let members = if rng.chance(1, 2) {
        vec![Spec::Item(a), Spec::Item(bi)]
    } else {
        vec![Spec::Item(bi), Spec::Item(a)]
    };
    let (w, wname) = match rng.below(5) {
        0 => (W::Optional { catch: false }, "optional"),
        1 => (W::Many { catch: false }, "many"),
        2 => (W::Some_ { catch: false }, "some"),
        3 => (W::Collect { catch: false }, "collect"),
        _ => (W::Last, "last"),
    };
    let root = Spec::Seq(vec![
        Spec::wrap(w, 3, Spec::Seq(members)),
        Spec::Item(Item {
            id: 5,
            names: Names::long("gamma"),
            help: None,
            leaf: Leaf::Switch,
        }),
    ]);
    let b = Bench::new(case, OptSpec::plain(root));
    let named = RunOpts {
        name: Some("harnesschild".to_string()),
        ..RunOpts::default()
    };
    let argv = vec![b"--alpha".to_vec(), b"7".to_vec()];
    std::env::remove_var(&var);
    let class = format!("half-given-group:{}:{}", wname, if env_only { "variable-only" } else { "named" });
    let (out, _) = b.run_opts(case, &argv, &class, &named, 22);
    match &out {
        Outcome::Stderr { text } if text.contains(var.as_str()) || text.contains("--beta") => {}
        Outcome::Panic(_) | Outcome::FuelExhausted => {}
        other => case.rep.violation(
            &format!("half-given-group:{}", other.class()),
            "both-absent",
            case.index,
            b.detail(
                &argv,
                &class,
                &format!("Stderr naming --beta or {}", var),
                other,
            ),
        ),
    }
    std::env::set_var(&var, "12");
    let (out, _) = b.run_opts(case, &argv, "half-given-group:variable-set", &named, 23);
    if !matches!(out, Outcome::Value(_) | Outcome::Panic(_) | Outcome::FuelExhausted) {
        case.rep.violation(
            &format!("half-given-group-with-variable:{}", out.class()),
            "fallback",
            case.index,
            b.detail(&argv, "half-given-group:variable-set", "a value", &out),
        );
    }
    std::env::remove_var(&var);
}

/// (E) an adjacent group whose first member is backed by a variable: with the member absent from
/// the line and the variable set, the variable's value is used like anywhere else
fn adjacent_group_led_by_variable(case: &mut Case) {
    let mut rng = case.rng(5);
    let var = format!("BPAF_VERIF_ADJ_{}", case.index % 83);
    let mut an = Names::long("alpha");
    an.envs = vec![var.clone()];
    let a = Spec::Item(Item {
        id: 1,
        names: an,
        help: None,
        leaf: Leaf::Arg {
            ty: Ty::U32,
            metavar: "A".into(),
            adjacent: false,
        },
    });
    let bsw = Spec::Item(Item {
        id: 2,
        names: Names::long("beta"),
        help: None,
        leaf: Leaf::Switch,
    });
    let g = Spec::Adj(vec![a, bsw]);
    let optional = rng.chance(1, 2);
    let g = if optional {
        Spec::wrap(W::Optional { catch: false }, 3, g)
    } else {
        g
    };
    let b = Bench::new(case, OptSpec::plain(Spec::Seq(vec![g])));
    let named = RunOpts {
        name: Some("harnesschild".to_string()),
        ..RunOpts::default()
    };
    std::env::set_var(&var, "12");
    let argv: Vec<Vec<u8>> = if rng.chance(1, 2) {
        Vec::new()
    } else {
        vec![b"--beta".to_vec()]
    };
    let class = "adjacent-group-led-by-variable";
    let (out, _) = b.run_opts(case, &argv, class, &named, 25);
    std::env::remove_var(&var);
    let uses_variable = matches!(&out, Outcome::Value(v) if v.show().contains("12"));
    if !uses_variable && !matches!(out, Outcome::Panic(_) | Outcome::FuelExhausted) {
        case.rep.violation(
            "adjacent-group-first-member-ignores-variable",
            "fallback",
            case.index,
            b.detail(
                &argv,
                class,
                &format!("a value in which --alpha is 12 ({}=12, --alpha is not on the line)", var),
                &out,
            ),
        );
    }
}

/// (B'') the same precedence through `fallback` / `fallback_with`, which evaluate on a copy of the
/// state: `long("alpha").env(V).argument::<u32>().fallback(0).many()` given `--alpha 1` while V
/// holds text that does not convert
fn repeated_defaulted_item_with_invalid_variable(case: &mut Case) {
    let mut rng = case.rng(13);
    let var = format!("BPAF_VERIF_REP_{}", case.index % 79);
    let mut names = Names::long("alpha");
    names.envs = vec![var.clone()];
    let a = Spec::Item(Item {
        id: 1,
        names,
        help: None,
        leaf: Leaf::Arg {
            ty: Ty::U32,
            metavar: "A".into(),
            adjacent: false,
        },
    });
    // ... or through a choice, whose branches are evaluated on copies as well:
    // `construct!([alpha, beta]).many()`
    let in_choice = rng.chance(1, 3);
    let dflt = if in_choice {
        let beta = Spec::Item(Item {
            id: 4,
            names: Names::long("beta"),
            help: None,
            leaf: Leaf::ReqFlag,
        });
        if rng.chance(1, 2) {
            Spec::Alt(vec![a, beta])
        } else {
            Spec::Alt(vec![beta, a])
        }
    } else {
        Spec::wrap(
            if rng.chance(1, 2) { W::Fallback } else { W::FallbackWithOk },
            2,
            a,
        )
    };
    let (w, wname) = match rng.below(3) {
        0 => (W::Many { catch: false }, "many"),
        1 => (W::Some_ { catch: false }, "some"),
        _ => (W::Collect { catch: false }, "collect"),
    };
    let b = Bench::new(case, OptSpec::plain(Spec::Seq(vec![Spec::wrap(w, 3, dflt)])));
    let named = RunOpts {
        name: Some("harnesschild".to_string()),
        ..RunOpts::default()
    };
    let argv = vec![b"--alpha".to_vec(), b"1".to_vec()];
    std::env::remove_var(&var);
    let (clean, _) = b.run_opts(case, &argv, "repeated-defaulted-item:variable-unset", &named, 26);
    std::env::set_var(&var, "zz");
    let class = format!("repeated-defaulted-item:{}:invalid-variable", wname);
    let (out, _) = b.run_opts(case, &argv, &class, &named, 27);
    std::env::remove_var(&var);
    if out != clean && !matches!(out, Outcome::Panic(_) | Outcome::FuelExhausted) {
        case.rep.violation(
            &format!(
                "variable-of-present-{}-influences:{}",
                if in_choice { "item-in-a-choice" } else { "defaulted-item" },
                out.class()
            ),
            "precedence",
            case.index,
            b.detail(
                &argv,
                &class,
                &format!("the outcome without the variable ({}=zz is set): {}", var, clean.show()),
                &out,
            ),
        );
    }
}

pub fn run_case(case: &mut Case) {
    if case.index % 8 == 5 {
        if (case.index / 8) % 4 == 3 {
            adjacent_group_led_by_variable(case);
        } else if (case.index / 8) % 4 == 2 {
            repeated_defaulted_item_with_invalid_variable(case);
        } else {
            half_given_group(case);
        }
        return;
    }
    let mut rng = case.rng(0);
    let spec = gen_spec(&mut rng);
    // from here on a separate stream, the child regenerates the spec from stream 0 only
    let mut rng = case.rng(1);
    let vars = declared(&spec);
    let b = Bench::new(case, spec);
    if vars.is_empty() {
        case.rep.count("no-declared-variables");
        return;
    }
    let named = RunOpts {
        name: Some("harnesschild".to_string()),
        ..RunOpts::default()
    };
    let undeclared: Vec<(String, Vec<u8>)> = vec![
        ("BPAF_VERIF_ENV_999999".to_string(), b"42".to_vec()),
        ("ALPHA".to_string(), b"x".to_vec()),
        ("NO_COLOR".to_string(), b"1".to_vec()),
        (
            b.alpha
                .args
                .first()
                .and_then(|n| n.longs.first())
                .map_or("VERBOSE".to_string(), |l| l.to_uppercase().replace('-', "_")),
            b"77".to_vec(),
        ),
    ];
    let mut tok = 0u32;
    let n_rounds = if case.thorough { 24 } else { 8 };
    for ri in 0..n_rounds {
        // (A) every set variable holds a valid value
        let state = valid_state(&vars, &mut rng, &mut tok);
        apply_env(&vars, &state);
        set_model_env(state.clone());
        let mut g = Gen::new(&mut rng);
        g.presence = 4;
        let sent = sentence(
            &b.spec.root,
            &mut g,
            OrderStyle::Random,
            DashDash::IfNeeded,
            SpellStyle::Random,
        );
        set_model_env(BTreeMap::new());
        let (d, units, line) = match sent {
            Some(x) => x,
            None => {
                case.rep.count("underivable");
                continue;
            }
        };
        let n_set = state.len();
        let on_line: Vec<Id> = units
            .iter()
            .filter_map(|u| match &u.kind {
                UKind::Flag { item, .. } | UKind::Arg { item, .. } => Some(*item),
                _ => None,
            })
            .collect();
        let both = vars
            .iter()
            .filter(|(n, id, _)| state.contains_key(n) && on_line.contains(id))
            .count();
        let env_only = vars
            .iter()
            .filter(|(n, id, _)| state.contains_key(n) && !on_line.contains(id))
            .count();
        case.rep.add("vars_set", n_set as u64);
        case.rep.add("line_and_variable(precedence)", both as u64);
        case.rep.add("variable_only(fallback)", env_only as u64);
        let (out, _) = b.run_opts(case, &line.argv, "line+environment", &named, 18);
        let ok = matches!(&out, Outcome::Value(v) if *v == d.value);
        if !ok && !matches!(out, Outcome::Panic(_) | Outcome::FuelExhausted) {
            case.rep.violation(
                &format!("env-precedence:{}", out.class()),
                "precedence",
                case.index,
                b.detail(
                    &line.argv,
                    "line+environment",
                    &format!("Ok({})", d.value.show()),
                    &out,
                )
                .set("environment", env_json(&state)),
            );
        }
        if ri == 0 {
            case.rep.sample(
                case_json(&b.spec, &line.argv)
                    .set("environment", env_json(&state))
                    .set("denotes", d.value.show())
                    .set("observed", out.show()),
            );
        }
        // the help screen reports the state of the first declared variable of an item the way the
        // parser sees it (an empty value is a value)
        if ri % 2 == 0 {
            let (hout, _) = b.run_opts(case, &[b"--help".to_vec()], "help+environment", &named, 20);
            if let Outcome::Stdout { text, .. } = &hout {
                let mut items = Vec::new();
                b.spec.root.level_items(&mut items);
                for it in items {
                    let var = match it.names.envs.first() {
                        Some(v) => v,
                        None => continue,
                    };
                    let tag = format!("env:{}", var);
                    // the name is followed by `:` or ` =`; another variable may have it as prefix
                    if !text.contains(&format!("{}:", tag)) && !text.contains(&format!("{} =", tag))
                    {
                        continue;
                    }
                    case.rep.count("help-variable-states-checked");
                    let set = state.contains_key(var);
                    let shown_set = text.contains(&format!("{}: set", tag))
                        || text.contains(&format!("{} = ", tag));
                    let shown_unset = text.contains(&format!("{}: not set", tag))
                        || text.contains(&format!("{}: N/A", tag));
                    if (set && !shown_set) || (!set && !shown_unset) {
                        case.rep.violation(
                            "help-shows-wrong-variable-state",
                            "help",
                            case.index,
                            b.detail(
                                &[b"--help".to_vec()],
                                "help+environment",
                                &format!("{} shown as {}", tag, if set { "set" } else { "not set" }),
                                &hout,
                            )
                            .set("environment", env_json(&state)),
                        );
                    }
                }
            }
        }
        // undeclared variables never influence the outcome
        for (k, v) in &undeclared {
            std::env::set_var(k, OsString::from_vec(v.clone()));
        }
        let (out2, _) = b.run_opts(case, &line.argv, "with-undeclared-variables", &named, 19);
        for (k, _) in &undeclared {
            std::env::remove_var(k);
        }
        if out != out2 {
            case.rep.violation(
                "undeclared-variable-changes-outcome",
                "undeclared",
                case.index,
                b.detail(&line.argv, "with-undeclared-variables", &out.show(), &out2)
                    .set("environment", env_json(&state)),
            );
        }
        // the same through a real process: the OS provides the environment
        if ri == 0 && case.index % 8 == 0 {
            if let Some(child) = run_child(case, &line.argv, &state, &undeclared) {
                case.rep.count("child-processes");
                if child != out.show() {
                    case.rep.violation(
                        "child-process-differs",
                        "os-environment",
                        case.index,
                        b.detail(&line.argv, "child-process", &out.show(), &out)
                            .set("child_stdout", child)
                            .set("environment", env_json(&state)),
                    );
                }
            } else {
                case.rep.inconclusive("child-spawn-failed");
            }
        }

        let root_items = {
            let mut v = Vec::new();
            b.spec.root.level_items(&mut v);
            v
        };
        // (B') the variable of an item that IS on the line has no say, not even an invalid one:
        // the outcome is the one observed with this state
        if ok {
            let cands: Vec<&(String, Id, Option<Ty>)> = vars
                .iter()
                .filter(|(_, id, ty)| {
                    matches!(ty, Some(Ty::U32 | Ty::I64 | Ty::Str))
                        && on_line.contains(id)
                        && root_items.iter().any(|i| i.id == *id)
                })
                .collect();
            if !cands.is_empty() {
                let (name, id, ty) = (*rng.pick(&cands)).clone();
                // a value that does not convert, or one that converts and then fails the guard
                let under_guard = b.spec.root.path_to(id).map_or(false, |p| {
                    p.iter().any(|e| matches!(e, PathEl::Wrap(W::Guard, _)))
                });
                let bad: Vec<u8> = match ty {
                    Some(Ty::Str) if under_guard && rng.chance(1, 2) => b"bad-value".to_vec(),
                    Some(Ty::Str) => b"v\xff".to_vec(),
                    _ if under_guard && rng.chance(1, 2) => b"900001".to_vec(),
                    _ => b"12x".to_vec(),
                };
                let mut st = state.clone();
                st.insert(name.clone(), bad.clone());
                apply_env(&vars, &st);
                let (o2, _) =
                    b.run_opts(case, &line.argv, "invalid-variable-of-item-on-the-line", &named, 24);
                if o2 != out && !matches!(o2, Outcome::Panic(_) | Outcome::FuelExhausted) {
                    case.rep.violation(
                        &format!("variable-of-present-item-influences:{}", o2.class()),
                        "precedence",
                        case.index,
                        b.detail(
                            &line.argv,
                            "invalid-variable-of-item-on-the-line",
                            &format!(
                                "the outcome without it ({}={:?} set, item {} is on the line): {}",
                                name,
                                show_bytes(&bad),
                                id,
                                out.show()
                            ),
                            &o2,
                        )
                        .set("environment", env_json(&st)),
                    );
                }
                apply_env(&vars, &state);
            }
        }
        // (B) an invalid value in the variable of an item that is absent from the line
        let cands: Vec<&(String, Id, Option<Ty>)> = vars
            .iter()
            .filter(|(n, id, ty)| {
                matches!(ty, Some(Ty::U32 | Ty::I64 | Ty::Str))
                    && !on_line.contains(id)
                    && root_items.iter().any(|i| {
                        i.id == *id && i.names.envs.first().map(String::as_str) == Some(n.as_str())
                    })
            })
            .collect();
        if !cands.is_empty() {
            let (name, id, ty) = (*rng.pick(&cands)).clone();
            let (bad, msg): (Vec<u8>, String) = match ty {
                Some(Ty::Str) => (b"v\xff".to_vec(), "is not a valid utf8".to_string()),
                _ => match rng.below(3) {
                    0 => (
                        b"x".to_vec(),
                        "x".parse::<u32>().unwrap_err().to_string(),
                    ),
                    1 => (
                        Vec::new(),
                        "".parse::<u32>().unwrap_err().to_string(),
                    ),
                    _ => (
                        b"12x".to_vec(),
                        "12x".parse::<u32>().unwrap_err().to_string(),
                    ),
                },
            };
            let mut st = state.clone();
            st.insert(name.clone(), bad.clone());
            apply_env(&vars, &st);
            let (out, _) = b.run_opts(case, &line.argv, "invalid-variable-value", &named, 20);
            match &out {
                Outcome::Stderr { text } if text.contains(&msg) => {}
                Outcome::Panic(_) | Outcome::FuelExhausted => {}
                Outcome::Stdout { .. } if usage_by_request(&b.spec, &line.argv) => {
                    case.rep.count("usage-printed-by-request");
                }
                other => case.rep.violation(
                    &format!("invalid-variable-value:{}", other.class()),
                    "validation",
                    case.index,
                    b.detail(
                        &line.argv,
                        "invalid-variable-value",
                        &format!(
                            "Stderr mentioning {:?} ({}={:?} for absent item {})",
                            msg,
                            name,
                            show_bytes(&bad),
                            id
                        ),
                        other,
                    )
                    .set("environment", env_json(&st)),
                ),
            }
        }

        // (C) item and variable both absent: a plain required item fails and is named
        let required: Vec<&Item> = match &b.spec.root {
            Spec::Seq(xs) => xs
                .iter()
                .filter_map(|x| match x {
                    Spec::Item(i)
                        if !i.names.envs.is_empty()
                            && matches!(i.leaf, Leaf::ReqFlag | Leaf::Arg { .. }) =>
                    {
                        Some(i)
                    }
                    _ => None,
                })
                .collect(),
            _ => Vec::new(),
        };
        if !required.is_empty() {
            let it = *rng.pick(&required);
            let m: Vec<U> = units
                .iter()
                .filter(|u| match &u.kind {
                    UKind::Flag { item, .. } | UKind::Arg { item, .. } => *item != it.id,
                    _ => true,
                })
                .cloned()
                .collect();
            let mut st = state.clone();
            for e in &it.names.envs {
                st.remove(e);
            }
            apply_env(&vars, &st);
            let mline = render(&m, &mut rng, SpellStyle::Canonical);
            let (out, _) = b.run_opts(case, &mline.argv, "item-and-variable-absent", &named, 21);
            let names_it = |text: &str| {
                it.names.preferred().map_or(false, |p| text.contains(&p))
                    || it.names.envs.iter().any(|e| text.contains(e.as_str()))
            };
            match &out {
                Outcome::Stderr { text } if names_it(text) => {}
                Outcome::Panic(_) | Outcome::FuelExhausted => {}
                Outcome::Stdout { .. } if usage_by_request(&b.spec, &mline.argv) => {
                    case.rep.count("usage-printed-by-request");
                }
                other => case.rep.violation(
                    &format!("absent-required-item:{}", other.class()),
                    "both-absent",
                    case.index,
                    b.detail(
                        &mline.argv,
                        "item-and-variable-absent",
                        &format!(
                            "Stderr naming {:?} or {:?}",
                            it.names.preferred(),
                            it.names.envs
                        ),
                        other,
                    )
                    .set("environment", env_json(&st)),
                ),
            }
        }
    }
    // leave the process environment clean for the next case
    apply_env(&vars, &BTreeMap::new());
}
