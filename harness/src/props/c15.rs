//! C15 - completion scripts for real shells are well-formed and inert.
//!
//! The directives bpaf emits for bash (rev 8) and zsh (rev 7) are *executed* by a sandboxed
//! `bash --norc --noprofile` with recording stubs for the completion helpers, an empty PATH, a
//! `command_not_found_handle`, canaries planted in typed words and in the definition's strings,
//! each script in its own empty scratch directory. Afterwards nothing but the stubs may have
//! run, no file may exist, and the recovered COMPREPLY / compadd / _filedir / _files data must
//! contain every revision-0 candidate and every requested shell completer exactly once. The
//! fish (rev 9) and elvish (rev 1) line protocols are checked by a line/field lexer.

use super::common::*;
use super::comp::*;
use super::Case;
use crate::deriv::*;
use crate::gen::{GenOpts, Pool};
use crate::json::{show_argv, J};
use crate::outcome::{clip, Outcome};
use crate::rng::Rng;
use crate::spec::*;
use std::collections::BTreeMap;
use std::io::Write;

const TYPED: &[&str] = &[
    "$(canary)",
    "`canary`",
    "; canary",
    "| canary",
    "&& canary",
    "> pwnfile",
    "a\ncanary",
    "it's",
    "say \"hi\"",
    "back\\slash",
    "a b  c",
    "*",
    "~",
    "$HOME",
    "$(canary",
    "\u{e9}t\u{e9}",
    "--zz=$(canary)",
    "x;canary;",
    "'; canary; '",
    "plainword",
    "",
    "-",
    "--",
];

const DEF_TEXT: &[&str] = &[
    "it's $(canary)",
    "`canary` help",
    "; canary",
    "'quoted' \"double\"",
    "back\\slash",
    "plain help",
    "> pwnfile",
    // one line, wider than the 100 columns help is wrapped at
    "a help line that keeps going and going, well past the hundred columns at which help screens are wrapped, still one line",
];

/// item help only (group names and completer descriptions are single lines by construction):
/// the first line is empty, the text starts with a hard line break
const HARD_BREAK_HELP: &str = "\n starts with a hard break\n second line";

fn seed_texts(s: &mut Spec, rng: &mut Rng) {
    match s {
        Spec::Item(i) => {
            if rng.chance(2, 3) {
                i.help = Some(if rng.chance(1, 12) {
                    format!("{} H{}", HARD_BREAK_HELP, i.id)
                } else {
                    format!("{} H{}", rng.pick(DEF_TEXT), i.id)
                });
            }
        }
        Spec::Wrap { w, id, inner } => {
            match w {
                W::GroupHelp(h) => *h = format!("{} G{}", rng.pick(DEF_TEXT), id),
                W::Complete(vals, group) => {
                    for (k, v) in vals.iter_mut().enumerate() {
                        if v.1.is_some() {
                            v.1 = Some(format!("{} D{}x{}", rng.pick(DEF_TEXT), id, k));
                        }
                    }
                    if group.is_some() {
                        *group = Some(format!("{} CG{}", rng.pick(DEF_TEXT), id));
                    }
                }
                W::Shell(kind, mask) => {
                    if *kind == ShellKind::Raw {
                        // raw shell code is the author's responsibility: keep it valid
                        *mask = format!("rawarg{}", id);
                    } else if rng.chance(1, 2) {
                        *mask = rng
                            .pick(&["*.txt", "*.(md|toml)", "*.it's", "a b", "$(canary)", "`canary`"])
                            .to_string();
                    }
                }
                _ => {}
            }
            seed_texts(inner, rng);
        }
        Spec::Seq(xs) | Spec::Alt(xs) | Spec::Adj(xs) => {
            for x in xs {
                seed_texts(x, rng);
            }
        }
        Spec::Cmd(c) => {
            if rng.chance(1, 2) {
                c.help = Some(format!("{} C{}", rng.pick(DEF_TEXT), c.id));
            }
            seed_texts(&mut c.opts.root, rng);
        }
        _ => {}
    }
}

/// what the sandbox recorded for one script
#[derive(Default, Debug)]
struct Observed {
    calls: Vec<Vec<String>>,
    descr: Vec<Vec<String>>,
    reply: Vec<String>,
    rc: Option<String>,
    files: Vec<String>,
    canary: usize,
    notfound: Vec<Vec<String>>,
    stderr: String,
}

const DRIVER: &str = r#"set +H
LOG="$1"; ROOT="$2"; N="$3"
rec() { printf '%s' "$1" >> "$LOG"; shift; for a in "$@"; do printf '\x1f%s' "$a" >> "$LOG"; done; printf '\0' >> "$LOG"; }
canary() { rec CANARY "$CASE"; }
command_not_found_handle() { rec NOTFOUND "$CASE" "$@"; return 127; }
_init_completion() { rec CALL "$CASE" _init_completion "$@"; return 0; }
_filedir() { rec CALL "$CASE" _filedir "$@"; }
_files() { rec CALL "$CASE" _files "$@"; }
compadd() { rec CALL "$CASE" compadd "$@"; rec DESCR "$CASE" "${descr[@]}"; }
raw_bash() { rec CALL "$CASE" raw_bash "$@"; }
raw_zsh() { rec CALL "$CASE" raw_zsh "$@"; }
run_one() {
  CASE="$1"
  local COMPREPLY=()
  source "$2"
  rec RC "$CASE" "$?"
  rec REPLY "$CASE" "${COMPREPLY[@]}"
  for f in * .[!.]*; do [ -e "$f" ] && rec FILE "$CASE" "$f"; done
}
PATH=/nonexistent-bpaf-verif
i=0
while [ "$i" -lt "$N" ]; do
  ( cd "$ROOT/d$i" && run_one "$i" "$ROOT/s$i.sh" 2> "$ROOT/e$i" )
  rec STDERR "$i" "$(<"$ROOT/e$i")"
  i=$((i+1))
done
"#;

fn run_sandbox(root: &std::path::Path, scripts: &[String]) -> Option<Vec<Observed>> {
    let _ = std::fs::remove_dir_all(root);
    std::fs::create_dir_all(root).ok()?;
    for (i, s) in scripts.iter().enumerate() {
        std::fs::create_dir_all(root.join(format!("d{}", i))).ok()?;
        let mut f = std::fs::File::create(root.join(format!("s{}.sh", i))).ok()?;
        f.write_all(s.as_bytes()).ok()?;
    }
    std::fs::write(root.join("driver.sh"), DRIVER).ok()?;
    let log = root.join("log");
    let status = std::process::Command::new("/usr/bin/bash")
        .arg("--norc")
        .arg("--noprofile")
        .arg(root.join("driver.sh"))
        .arg(&log)
        .arg(root)
        .arg(format!("{}", scripts.len()))
        .env_clear()
        .stdout(std::process::Stdio::null())
        .stderr(std::process::Stdio::null())
        .status()
        .ok()?;
    let _ = status;
    let bytes = std::fs::read(&log).ok()?;
    let mut obs: Vec<Observed> = (0..scripts.len()).map(|_| Observed::default()).collect();
    for recd in bytes.split(|b| *b == 0) {
        if recd.is_empty() {
            continue;
        }
        let fields: Vec<String> = recd
            .split(|b| *b == 0x1f)
            .map(|f| String::from_utf8_lossy(f).to_string())
            .collect();
        let ix: usize = match fields.get(1).and_then(|s| s.parse().ok()) {
            Some(i) => i,
            None => continue,
        };
        let o = match obs.get_mut(ix) {
            Some(o) => o,
            None => continue,
        };
        let rest: Vec<String> = fields[2..].to_vec();
        match fields[0].as_str() {
            "CALL" => o.calls.push(rest),
            "DESCR" => o.descr.push(rest),
            "REPLY" => o.reply = rest,
            "RC" => o.rc = rest.first().cloned(),
            "FILE" => o.files.extend(rest),
            "CANARY" => o.canary += 1,
            "NOTFOUND" => o.notfound.push(rest),
            "STDERR" => o.stderr = rest.join(" "),
            _ => {}
        }
    }
    let _ = std::fs::remove_dir_all(root);
    Some(obs)
}

/// a candidate whose description is empty (a help text whose first line is empty) is shown with
/// or without the empty description column: `--name=M -- ` / `--name=M`, `--name<TAB>` / `--name`
fn no_empty_description(s: &str) -> String {
    if let Some(t) = s.strip_suffix('\t') {
        return t.to_string();
    }
    // `META: ` is the metavariable placeholder with an empty description
    if let Some(t) = s.strip_suffix(": ") {
        return t.to_string();
    }
    match s.strip_suffix(" -- ") {
        Some(t) => t.trim_end().to_string(),
        None => s.to_string(),
    }
}

/// bpaf's display string for a candidate (what bash shows, what zsh puts into `descr`)
fn display(c: &Cand) -> String {
    if !c.help.is_empty() && c.subst.is_empty() {
        format!("{}: {}", c.pretty, c.help)
    } else if !c.help.is_empty() {
        format!("{:24} -- {}", c.pretty, c.help)
    } else {
        c.pretty.clone()
    }
}

#[derive(Debug, Clone, PartialEq)]
enum Op {
    File(Option<String>),
    Dir(Option<String>),
    Raw(String),
    Nothing,
}

/// parse the Debug rendering of ShellComp that revision 0 prints
fn parse_op(s: &str) -> Option<Op> {
    let mask = |s: &str| -> Option<String> {
        let at = s.find("Some(\"")?;
        let rest = &s[at + 6..];
        let end = rest.rfind("\")")?;
        // undo Debug escaping of the characters the generator uses
        Some(
            rest[..end]
                .replace("\\\"", "\"")
                .replace("\\'", "'")
                .replace("\\\\", "\\"),
        )
    };
    if s.starts_with("File") {
        Some(Op::File(mask(s)))
    } else if s.starts_with("Dir") {
        Some(Op::Dir(mask(s)))
    } else if s.starts_with("Raw") {
        let at = s.find("bash: \"")?;
        let rest = &s[at + 7..];
        let end = rest.find('"')?;
        Some(Op::Raw(rest[..end].trim_start_matches("raw_bash ").to_string()))
    } else if s.starts_with("Nothing") {
        Some(Op::Nothing)
    } else {
        None
    }
}

fn bashmask(m: &str) -> String {
    let i = m.strip_prefix("*.").unwrap_or(m);
    if i.starts_with('(') {
        format!("@{}", i)
    } else {
        i.to_string()
    }
}

struct Job {
    argv: Vec<Vec<u8>>,
    rev: usize,
    named: bool,
    text: String,
    rev0: Rev0,
    ops: Vec<Op>,
    /// index into the sandbox batch (bash / zsh only)
    sandbox: Option<usize>,
}

fn multiset(v: &[String]) -> BTreeMap<String, usize> {
    let mut m = BTreeMap::new();
    for x in v {
        *m.entry(x.clone()).or_insert(0) += 1;
    }
    m
}

pub fn gen_spec(rng: &mut Rng) -> OptSpec {
    let mut spec = {
        let mut o = GenOpts::general();
        o.completers = true;
        o.shell_completers = true;
        o.strict = false;
        o.cmd_depth = 1;
        o.max_named = 5;
        o.nonascii = true;
        let depth = o.cmd_depth;
        let mut p = Pool::new(rng, o);
        p.level(depth)
    };
    seed_texts(&mut spec.root, rng);
    spec
}

/// Runs the bash stub's completion function in the sandbox for a line whose words carry shell
/// metacharacters. `Some(true)`: typed text was executed (or the program was not called with
/// exactly the typed words).
pub fn bash_stub_executes_typed_text(stub: &str, scratch: &std::path::Path) -> Option<(bool, String)> {
    let words = ["a$(canary)b", ";canary", "`canary`", "x y", ""];
    let mut script = String::new();
    script.push_str(stub);
    script.push_str("\nmy-app() { rec CALL \"$CASE\" my-app \"$@\"; }\n");
    script.push_str("COMP_WORDS=(my-app");
    for w in words {
        script.push_str(&format!(" '{}'", w));
    }
    script.push_str(")\nCOMP_CWORD=5\n_bpaf_dynamic_completion my-app\n");
    let obs = run_sandbox(scratch, &[script])?;
    let o = obs.first()?;
    let expected: Vec<String> = std::iter::once("my-app".to_string())
        .chain(std::iter::once("--bpaf-complete-rev=8".to_string()))
        .chain(words.iter().map(|w| w.to_string()))
        .collect();
    let called_as_typed = o.calls.len() == 1 && o.calls[0] == expected;
    let bad = o.canary > 0 || !called_as_typed;
    Some((
        bad,
        format!(
            "canary ran {} times; program calls: {:?}; not found: {:?}; stderr: {}",
            o.canary, o.calls, o.notfound, o.stderr
        ),
    ))
}

/// The static completion stubs printed for `--bpaf-complete-style-*` exit the process by design,
/// so they are observed through a child process: exit status 0, nothing on stderr, the program
/// name embedded, and (bash/zsh) accepted by `bash -n`.
fn check_static_stubs(case: &mut Case, b: &Bench) {
    use std::os::unix::process::CommandExt;
    let exe = match std::env::current_exe() {
        Ok(e) => e,
        Err(_) => return,
    };
    for style in ["bash", "zsh", "fish", "elvish"] {
        let mut cmd = std::process::Command::new(&exe);
        cmd.arg0("my-app");
        cmd.env_clear();
        cmd.env(
            crate::child::CHILD_ENV,
            format!("{}:{}:{}:run", case.prop, case.seed, case.index),
        );
        cmd.arg(format!("--bpaf-complete-style-{}", style));
        let out = match cmd.output() {
            Ok(o) => o,
            Err(_) => {
                case.rep.inconclusive("stub-spawn-failed");
                continue;
            }
        };
        case.rep.count("static-stubs-checked");
        let text = String::from_utf8_lossy(&out.stdout).to_string();
        let mut problem = None;
        if out.status.code() != Some(0) || !out.stderr.is_empty() {
            problem = Some(format!(
                "status {:?}, stderr {:?}",
                out.status.code(),
                clip(&String::from_utf8_lossy(&out.stderr))
            ));
        } else if !text.contains("my-app") || text.contains(crate::child::SENTINEL) {
            problem = Some("stub does not name the program / program body was reached".into());
        } else if style == "bash" || style == "zsh" {
            let path = std::env::current_dir()
                .unwrap_or_default()
                .join(format!("stub-{}-{}.sh", std::process::id(), style));
            if std::fs::write(&path, &text).is_ok() {
                let st = std::process::Command::new("/usr/bin/bash")
                    .arg("-n")
                    .arg(&path)
                    .env_clear()
                    .output();
                let _ = std::fs::remove_file(&path);
                if let Ok(st) = st {
                    if !st.status.success() {
                        problem = Some(format!(
                            "bash -n rejects the stub: {}",
                            clip(&String::from_utf8_lossy(&st.stderr))
                        ));
                    }
                }
            }
        }
        if problem.is_none() && style == "bash" {
            let scratch = std::env::current_dir()
                .unwrap_or_default()
                .join(format!("stubbox-{}", std::process::id()));
            match bash_stub_executes_typed_text(&text, &scratch) {
                Some((true, what)) => {
                    case.rep.violation(
                        "static-stub:bash:executes-typed-text",
                        "static-stub",
                        case.index,
                        J::obj()
                            .set("style", style)
                            .set("problem", what)
                            .set("stub", clip(&text)),
                    );
                }
                Some((false, _)) => case.rep.count("static-stub:bash:run-in-sandbox"),
                None => case.rep.inconclusive("stub-sandbox-failed"),
            }
        }
        if let Some(p) = problem {
            case.rep.violation(
                &format!("static-stub:{}", style),
                "static-stub",
                case.index,
                J::obj()
                    .set("definition", clip(&b.spec.pretty()))
                    .set("style", style)
                    .set("problem", p)
                    .set("stub", clip(&text)),
            );
        }
    }
}

pub fn run_case(case: &mut Case) {
    let mut rng = case.rng(0);
    let spec = gen_spec(&mut rng);
    let mut rng = case.rng(1);
    let b = Bench::new(case, spec);
    let hidden = super::c02::hidden_items(&b.spec);
    if case.index % 8 == 0 {
        check_static_stubs(case, &b);
    }

    // lines to complete
    let mut lines: Vec<Vec<Vec<u8>>> = Vec::new();
    let n_lines = if case.thorough { 10 } else { 5 };
    for _ in 0..n_lines {
        let mut g = Gen::new(&mut rng);
        let units = derive(&b.spec.root, &mut g)
            .and_then(|d| order_units(&d.atoms, &mut rng, OrderStyle::Random, DashDash::IfNeeded));
        let units = match units {
            Some(u) => u,
            None => continue,
        };
        let k = rng.below(units.len() + 1);
        if units[..k].iter().any(|u| u.kind == UKind::DashDash) {
            continue;
        }
        let mut argv = render_cfg(&units[..k], &mut rng, SpellStyle::Random, &hidden).argv;
        // what is typed: hostile word, a fresh prefix, or an argument name awaiting its value
        match rng.below(4) {
            0 => argv.push(Vec::new()),
            1 => {
                if let Some(n) = b.alpha.args.first().and_then(|n| n.preferred()) {
                    argv.push(n.into_bytes());
                    argv.push(rng.pick(TYPED).as_bytes().to_vec());
                } else {
                    argv.push(b"-".to_vec());
                }
            }
            _ => argv.push(rng.pick(TYPED).as_bytes().to_vec()),
        }
        lines.push(argv);
    }

    // collect outputs of every revision
    let mut jobs: Vec<Job> = Vec::new();
    let mut scripts: Vec<String> = Vec::new();
    for argv in &lines {
        let fuel = fuel_for(&b.spec, argv);
        let rev0 = match complete(&b.parser, argv, 0, Some("app"), fuel) {
            Outcome::Completion(t) => parse_rev0(&t),
            other => {
                if matches!(other, Outcome::Panic(_) | Outcome::FuelExhausted) {
                    case.rep.inconclusive("rev0-abnormal(C04)");
                } else {
                    case.rep.inconclusive("rev0-not-completion(C14)");
                }
                continue;
            }
        };
        let ops: Vec<Op> = rev0.ops.iter().filter_map(|o| parse_op(o)).collect();
        if ops.len() != rev0.ops.len() {
            case.rep.inconclusive("unparsed-shell-completer");
            continue;
        }
        for rev in [1usize, 7, 8, 9] {
            for named in [true, false] {
                let name = if named { Some("app") } else { None };
                let out = complete(&b.parser, argv, rev, name, fuel);
                case.rep.exec(b.h, argv, 1500 + rev as u64 * 2 + u64::from(named), true);
                case.rep.count(&format!("rev:{}", rev));
                let text = match out {
                    Outcome::Completion(t) => t,
                    other => {
                        case.rep.violation(
                            &format!("rev{}:not-completion:{}", rev, other.class()),
                            "well-formed",
                            case.index,
                            case_json(&b.spec, argv).set("observed", other.show()),
                        );
                        continue;
                    }
                };
                let sandbox = if rev == 7 || rev == 8 {
                    scripts.push(text.clone());
                    Some(scripts.len() - 1)
                } else {
                    None
                };
                jobs.push(Job {
                    argv: argv.clone(),
                    rev,
                    named,
                    text,
                    rev0: rev0.clone(),
                    ops: ops.clone(),
                    sandbox,
                });
            }
        }
    }
    if jobs.is_empty() {
        return;
    }
    let root = std::env::current_dir()
        .unwrap_or_else(|_| std::path::PathBuf::from("."))
        .join(format!("sandbox-{}-{}", std::process::id(), case.index));
    let observed = match run_sandbox(&root, &scripts) {
        Some(o) => o,
        None => {
            case.rep.inconclusive("sandbox-failed");
            return;
        }
    };
    case.rep.add("scripts_executed_in_bash", scripts.len() as u64);

    for (ji, j) in jobs.iter().enumerate() {
        let typed = String::from_utf8_lossy(j.argv.last().map_or(&[][..], |v| v.as_slice())).to_string();
        let detail = |problem: String| {
            case_json(&b.spec, &j.argv)
                .set("revision", j.rev)
                .set("with_app_name", j.named)
                .set("problem", problem)
                .set("emitted", clip(&j.text))
                .set(
                    "rev0_candidates",
                    J::Arr(
                        j.rev0
                            .items
                            .iter()
                            .map(|c| J::Str(format!("{:?}", c)))
                            .collect(),
                    ),
                )
                .set("rev0_completers", J::Arr(j.rev0.ops.iter().map(|o| J::Str(o.clone())).collect()))
                .set("rev0_echo", j.rev0.echo.clone())
        };
        // structured fact for signatures: what shape the candidate set has
        let shape = if j.rev0.echo.is_some() {
            "echo-typed-word"
        } else if j.rev0.items.len() == 1 {
            if j.ops.iter().any(|o| *o != Op::Nothing) {
                "single-candidate+completer"
            } else {
                "single-candidate"
            }
        } else if j.rev0.items.is_empty() {
            "completers-only"
        } else if j.ops.iter().any(|o| *o != Op::Nothing) {
            "candidates+completer"
        } else {
            "candidates"
        };
        case.rep.count(&format!("shape:{}", shape));
        let mut violations: Vec<(String, String)> = Vec::new();

        match j.rev {
            8 | 7 => {
                let o = &observed[j.sandbox.unwrap()];
                // inertness
                if o.canary > 0 {
                    violations.push(("executes-typed-or-user-text".into(), "a canary ran".into()));
                }
                if !o.notfound.is_empty() {
                    violations.push((
                        "runs-unknown-command".into(),
                        format!("unknown commands: {:?}", o.notfound),
                    ));
                }
                if !o.files.is_empty() {
                    violations.push(("creates-file".into(), format!("files: {:?}", o.files)));
                }
                if o.rc.as_deref() != Some("0") || !o.stderr.is_empty() {
                    violations.push((
                        "shell-error".into(),
                        format!("rc={:?} stderr={:?}", o.rc, clip(&o.stderr)),
                    ));
                }
                // requested completers: exactly once each
                let mut want_calls: Vec<Vec<String>> = Vec::new();
                for op in &j.ops {
                    match (j.rev, op) {
                        (8, Op::File(None)) => want_calls.push(vec!["_filedir".into()]),
                        (8, Op::File(Some(m))) => {
                            want_calls.push(vec!["_filedir".into(), bashmask(m)]);
                        }
                        (8, Op::Dir(None)) => want_calls.push(vec!["_filedir".into(), "-d".into()]),
                        (8, Op::Dir(Some(m))) => {
                            want_calls.push(vec!["_filedir".into(), "-d".into(), bashmask(m)]);
                        }
                        (8, Op::Raw(a)) => want_calls.push(vec!["raw_bash".into(), a.clone()]),
                        (7, Op::File(None)) => want_calls.push(vec!["_files".into()]),
                        (7, Op::File(Some(m))) => {
                            want_calls.push(vec!["_files".into(), "-g".into(), m.clone()]);
                        }
                        (7, Op::Dir(None)) => want_calls.push(vec!["_files".into(), "-/".into()]),
                        (7, Op::Dir(Some(m))) => want_calls.push(vec![
                            "_files".into(),
                            "-/".into(),
                            "-g".into(),
                            m.clone(),
                        ]),
                        (7, Op::Raw(a)) => want_calls.push(vec!["raw_zsh".into(), a.clone()]),
                        _ => {}
                    }
                }
                let helper_calls: Vec<Vec<String>> = o
                    .calls
                    .iter()
                    .filter(|c| {
                        matches!(
                            c.first().map(String::as_str),
                            Some("_filedir" | "_files" | "raw_bash" | "raw_zsh")
                        )
                    })
                    .cloned()
                    .collect();
                let key = |v: &Vec<Vec<String>>| -> Vec<String> {
                    v.iter().map(|c| c.join("\u{1f}")).collect()
                };
                if multiset(&key(&helper_calls)) != multiset(&key(&want_calls)) {
                    violations.push((
                        "completer-calls-differ".into(),
                        format!("wanted {:?}, recorded {:?}", want_calls, helper_calls),
                    ));
                }
                // candidates: exactly once each
                if j.rev == 8 {
                    let mut want: Vec<String> = Vec::new();
                    if let Some(e) = &j.rev0.echo {
                        want.push(e.clone());
                    } else if j.rev0.items.len() == 1 {
                        let c = &j.rev0.items[0];
                        if c.subst.is_empty() {
                            want.push(c.pretty.clone());
                            want.push(String::new());
                        } else {
                            want.push(c.subst.clone());
                        }
                    } else {
                        let mut prev = String::new();
                        for c in &j.rev0.items {
                            if !c.group.is_empty() && c.group != prev {
                                prev = c.group.clone();
                                want.push(c.group.clone());
                            }
                            want.push(display(c));
                        }
                    }
                    let reply: Vec<String> = o.reply.iter().map(|r| no_empty_description(r)).collect();
                    if reply != want {
                        violations.push((
                            "candidates-differ".into(),
                            format!("wanted COMPREPLY {:?}, got {:?}", want, o.reply),
                        ));
                    }
                } else {
                    let adds: Vec<&Vec<String>> = o
                        .calls
                        .iter()
                        .filter(|c| c.first().map(String::as_str) == Some("compadd"))
                        .collect();
                    let mut want_last: Vec<String> = Vec::new();
                    if let Some(e) = &j.rev0.echo {
                        want_last.push(e.clone());
                    } else if j.rev0.items.len() == 1 && j.rev0.items[0].subst.is_empty() {
                        want_last.push(j.rev0.items[0].pretty.clone());
                        want_last.push(String::new());
                    } else {
                        for c in &j.rev0.items {
                            want_last.push(c.subst.clone());
                        }
                    }
                    let got_last: Vec<String> = adds
                        .iter()
                        .map(|c| c.last().cloned().unwrap_or_default())
                        .collect();
                    // every compadd must pass its word after `--` (or be the bare `compadd ''`)
                    let shapes_ok = adds
                        .iter()
                        .all(|c| c.len() == 2 || (c.len() >= 3 && c[c.len() - 2] == "--"));
                    if got_last != want_last || !shapes_ok {
                        violations.push((
                            "candidates-differ".into(),
                            format!("wanted compadd words {:?}, got calls {:?}", want_last, adds),
                        ));
                    }
                    // descriptions shown for multi-candidate lists
                    if j.rev0.echo.is_none() && j.rev0.items.len() > 1 {
                        let want_descr: Vec<Vec<String>> =
                            j.rev0.items.iter().map(|c| vec![display(c)]).collect();
                        let descr: Vec<Vec<String>> = o
                            .descr
                            .iter()
                            .map(|d| d.iter().map(|x| no_empty_description(x)).collect())
                            .collect();
                        if descr != want_descr {
                            violations.push((
                                "descriptions-differ".into(),
                                format!("wanted {:?}, got {:?}", want_descr, o.descr),
                            ));
                        }
                    }
                }
            }
            9 => {
                let mut want: Vec<String> = Vec::new();
                if let Some(e) = &j.rev0.echo {
                    want.push(e.clone());
                }
                for c in j.rev0.items.iter().rev().filter(|c| !c.subst.is_empty()) {
                    if c.help.is_empty() {
                        want.push(c.subst.clone());
                    } else {
                        want.push(format!("{}\t{}", c.subst, c.help));
                    }
                }
                let got: Vec<String> = j
                    .text
                    .strip_suffix('\n')
                    .map_or_else(Vec::new, |t| t.split('\n').map(str::to_string).collect());
                let mut got: Vec<String> = if j.text.is_empty() {
                    Vec::new()
                } else {
                    got.iter().map(|g| no_empty_description(g)).collect()
                };
                // revision 0 prints a lone candidate without its help text: accept any help
                if j.rev0.items.len() == 1
                    && j.rev0.echo.is_none()
                    && got.len() == 1
                    && want.len() == 1
                    && !want[0].contains('\t')
                {
                    if let Some((subst, _help)) = got[0].clone().split_once('\t') {
                        got[0] = subst.to_string();
                    }
                }
                if got != want || (!j.text.is_empty() && !j.text.ends_with('\n')) {
                    violations.push((
                        "line-protocol".into(),
                        format!("wanted lines {:?}, got {:?}", want, got),
                    ));
                }
            }
            1 => {
                let mut want: Vec<String> = Vec::new();
                if j.rev0.items.len() == 1 {
                    want.push(j.rev0.items[0].subst.clone());
                } else {
                    for c in &j.rev0.items {
                        if c.help.is_empty() {
                            want.push(c.subst.clone());
                        } else {
                            want.push(format!(
                                "{}\t{}",
                                c.subst,
                                c.help.split('\n').next().unwrap_or("")
                            ));
                        }
                    }
                }
                let got: Vec<String> = if j.text.is_empty() {
                    Vec::new()
                } else {
                    j.text
                        .strip_suffix('\n')
                        .unwrap_or(&j.text)
                        .split('\n')
                        .map(no_empty_description)
                        .collect()
                };
                if got != want {
                    violations.push((
                        "line-protocol".into(),
                        format!("wanted lines {:?}, got {:?}", want, got),
                    ));
                }
            }
            _ => {}
        }
        // fish and elvish: the requested file/directory/raw completers have to be in the output too
        if (j.rev == 9 || j.rev == 1) && j.ops.iter().any(|o| *o != Op::Nothing) {
            case.rep.count("fish-elvish-jobs-with-a-requested-completer");
            violations.push((
                "requested-completer-dropped".into(),
                format!(
                    "requested {:?}: the output for this shell has no directive for them",
                    j.rev0.ops
                ),
            ));
        }
        let hostile_typed = typed.chars().any(|c| !(c.is_alphanumeric() || c == '-' || c == '='));
        for (kind, problem) in violations {
            if kind == "requested-completer-dropped" {
                let sig = format!("rev{}:{}", j.rev, kind);
                case.rep
                    .violation(&sig, "script", case.index, detail(problem));
                continue;
            }
            let sig = format!(
                "rev{}:{}:{}{}",
                j.rev,
                kind,
                shape,
                if shape == "echo-typed-word" && typed.contains('\n') {
                    ":newline-in-typed-word"
                } else if shape == "echo-typed-word" && hostile_typed {
                    ":metacharacters-in-typed-word"
                } else {
                    ""
                }
            );
            case.rep
                .violation(&sig, "script", case.index, detail(problem));
        }
        if ji == 0 {
            case.rep.sample(
                J::obj()
                    .set("definition", clip(&b.spec.pretty()))
                    .set("argv", show_argv(&j.argv))
                    .set("revision", j.rev)
                    .set("emitted", clip(&j.text)),
            );
        }
    }
}
