//! What a command level declares, seen the way the documentation describes `--help`:
//! visible items with their first short/long name, metavariable and help; hidden items;
//! aliases; subcommands. Shared by C12 (help tokenizer) and C16 (documentation lexers).

use crate::spec::*;

#[derive(Clone, Debug)]
pub struct VisItem {
    pub id: Id,
    pub short: Option<char>,
    pub long: Option<String>,
    /// names past the first of each kind
    pub alias_shorts: Vec<char>,
    pub alias_longs: Vec<String>,
    pub metavar: Option<String>,
    pub help: Option<String>,
    pub is_arg: bool,
    pub is_pos: bool,
    pub in_adjacent: bool,
    pub hidden: bool,
}

impl VisItem {
    /// the term bpaf prints for the item
    pub fn term(&self) -> String {
        let mv = self.metavar.as_ref().map(|m| {
            if m
                .chars()
                .all(|c| c.is_uppercase() || c.is_ascii_digit() || c == '-' || c == '_')
            {
                m.clone()
            } else {
                format!("<{}>", m)
            }
        });
        let mut t = match (self.short, &self.long) {
            (Some(s), Some(l)) => format!("-{}, --{}", s, l),
            (Some(s), None) => format!("-{}", s),
            (None, Some(l)) => format!("--{}", l),
            (None, None) => String::new(),
        };
        if let Some(m) = mv {
            if self.is_arg {
                t.push('=');
            }
            t.push_str(&m);
        }
        t
    }
}

#[derive(Clone, Debug)]
pub struct VisCmd {
    pub id: Id,
    pub name: String,
    pub short: Option<char>,
    pub alias_names: Vec<String>,
    pub alias_shorts: Vec<char>,
    /// explicit help, else the first line of the inner description
    pub descr: Option<String>,
    pub hidden: bool,
}

impl VisCmd {
    pub fn term(&self) -> String {
        match self.short {
            Some(s) => format!("{}, {}", self.name, s),
            None => self.name.clone(),
        }
    }
}

#[derive(Clone, Debug, Default)]
pub struct LevelView {
    pub items: Vec<VisItem>,
    pub cmds: Vec<VisCmd>,
}

pub fn level_view(o: &OptSpec) -> LevelView {
    let mut v = LevelView::default();
    go(&o.root, false, false, &mut v);
    v
}

fn go(s: &Spec, hidden: bool, adj: bool, v: &mut LevelView) {
    match s {
        Spec::Item(i) => {
            let (metavar, is_arg, is_pos) = match &i.leaf {
                Leaf::Arg { metavar, .. } => (Some(metavar.clone()), true, false),
                Leaf::Pos { metavar, .. } => (Some(metavar.clone()), false, true),
                _ => (None, false, false),
            };
            v.items.push(VisItem {
                id: i.id,
                short: i.names.shorts.first().copied(),
                long: i.names.longs.first().cloned(),
                alias_shorts: i.names.shorts.iter().skip(1).copied().collect(),
                alias_longs: i.names.longs.iter().skip(1).cloned().collect(),
                metavar,
                help: i.help.clone(),
                is_arg,
                is_pos,
                in_adjacent: adj,
                hidden,
            });
        }
        Spec::Wrap { w, inner, .. } => go(inner, hidden || matches!(w, W::Hide), adj, v),
        Spec::Seq(xs) | Spec::Alt(xs) => {
            for x in xs {
                go(x, hidden, adj, v);
            }
        }
        Spec::Adj(xs) => {
            for x in xs {
                go(x, hidden, true, v);
            }
        }
        Spec::Cmd(c) => {
            let descr = c.help.clone().or_else(|| {
                c.opts
                    .descr
                    .as_ref()
                    .map(|d| d.split('\n').next().unwrap_or("").to_string())
            });
            v.cmds.push(VisCmd {
                id: c.id,
                name: c.names[0].clone(),
                short: c.shorts.first().copied(),
                alias_names: c.names.iter().skip(1).cloned().collect(),
                alias_shorts: c.shorts.iter().skip(1).copied().collect(),
                descr,
                hidden,
            });
        }
        Spec::Pure(_) | Spec::Fail(_) => {}
    }
}

/// every (path of command names, level) reachable through visible or hidden subcommands
pub fn levels<'a>(o: &'a OptSpec, path: &mut Vec<String>, out: &mut Vec<(Vec<String>, &'a OptSpec, bool)>) {
    fn walk<'a>(
        o: &'a OptSpec,
        path: &mut Vec<String>,
        hidden: bool,
        out: &mut Vec<(Vec<String>, &'a OptSpec, bool)>,
    ) {
        out.push((path.clone(), o, hidden));
        fn cmds<'a>(s: &'a Spec, hidden: bool, out: &mut Vec<(&'a CmdSpec, bool)>) {
            match s {
                Spec::Cmd(c) => out.push((c, hidden)),
                Spec::Wrap { w, inner, .. } => cmds(inner, hidden || matches!(w, W::Hide), out),
                Spec::Seq(xs) | Spec::Alt(xs) | Spec::Adj(xs) => {
                    for x in xs {
                        cmds(x, hidden, out);
                    }
                }
                _ => {}
            }
        }
        let mut cs = Vec::new();
        cmds(&o.root, hidden, &mut cs);
        for (c, h) in cs {
            path.push(c.names[0].clone());
            walk(&c.opts, path, h, out);
            path.pop();
        }
    }
    walk(o, path, false, out);
}
