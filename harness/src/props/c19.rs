//! C19 - adjacent groups consume contiguous blocks only.
//!
//! Derivation-directed: blocks written contiguously (0-3 repetitions among other named items and
//! trailing positionals) must yield one value per block in command-line order (unique tokens make
//! the attribution visible); a block interrupted by a foreign item, cut short, or with a required
//! member moved away must be a failure, never a value.

use super::common::*;
use super::Case;
use crate::deriv::*;
use crate::gen::{GenOpts, Pool};
use crate::rng::Rng;
use crate::spec::*;

fn gen_def(p: &mut Pool) -> OptSpec {
    let mut fields = Vec::new();
    for _ in 0..p.rng.below(3) {
        fields.push(p.named_field());
    }
    let mut nested = false;
    for _ in 0..p.rng.range(1, 2) {
        if p.rng.chance(1, 5) {
            fields.push(p.adjacent_group_nested());
            nested = true;
        } else if p.rng.chance(1, 6) {
            fields.push(p.adjacent_group_in_choice());
        } else {
            fields.push(p.adjacent_group());
        }
        if p.rng.chance(1, 2) {
            fields.push(p.named_field());
        }
    }
    if nested && p.rng.chance(2, 3) {
        // words that fall out of a block have somewhere to go
        let mut it = p.pos_item(Strict::Any);
        if let Leaf::Pos { ty, .. } = &mut it.leaf {
            *ty = Ty::Os;
        }
        let id = p.id();
        fields.push(Spec::wrap(W::Many { catch: false }, id, Spec::Item(it)));
    } else if p.rng.chance(1, 4) && fields.len() < 9 {
        // adjacent subcommand chain: `cmd1 --a cmd2 --b cmd1 ..`
        fields.push(p.adjacent_command_chain());
    } else if p.rng.chance(1, 2) {
        fields.extend(p.positionals(2));
    }
    OptSpec::plain(Spec::Seq(fields))
}

/// is the member with this item id required inside its adjacent group
fn member_required(spec: &OptSpec, id: Id) -> bool {
    match spec.root.path_to(id) {
        Some(path) => {
            // wrappers between the innermost Adj and the item
            let adj_at = path.iter().rposition(|e| matches!(e, PathEl::Adj));
            match adj_at {
                Some(a) => !path[a + 1..].iter().any(|e| {
                    matches!(
                        e,
                        PathEl::Wrap(
                            W::Optional { .. }
                                | W::Many { .. }
                                | W::Fallback
                                | W::FallbackWithOk
                                | W::Count
                                | W::Collect { .. },
                            _
                        )
                    )
                }) && !matches!(
                    spec.root.find_item(id).map(|i| &i.leaf),
                    Some(Leaf::Switch | Leaf::Flag)
                ),
                None => false,
            }
        }
        None => false,
    }
}

/// value tokens of every adjacent-group value inside `v`, with the ids of the group's items
fn block_tokens(spec: &Spec, v: &V, out: &mut Vec<(Vec<Id>, Vec<Vec<u8>>)>) {
    fn leaves(v: &V, out: &mut Vec<Vec<u8>>) {
        match v {
            V::Field(id, x) => match &**x {
                V::Bytes(b) => out.push(b.clone()),
                V::Int(i) => out.push(format!("{}", i).into_bytes()),
                // a flag that was given: located on the line by its name, see `find`
                V::Bool(true) | V::Unit => out.push(format!("\0flag:{}", id).into_bytes()),
                V::Tag(t) if *t == 2 * id + 1 => out.push(format!("\0flag:{}", id).into_bytes()),
                other => leaves(other, out),
            },
            V::Opt(Some(x)) | V::Variant(_, x) => leaves(x, out),
            V::List(xs) | V::Tuple(xs) => xs.iter().for_each(|x| leaves(x, out)),
            _ => {}
        }
    }
    match (spec, v) {
        (Spec::Adj(xs), V::Tuple(_)) => {
            let mut ids = Vec::new();
            let mut items = Vec::new();
            for x in xs {
                x.level_items(&mut items);
            }
            ids.extend(items.iter().map(|i| i.id));
            let mut toks = Vec::new();
            leaves(v, &mut toks);
            out.push((ids, toks));
        }
        (Spec::Wrap { w, inner, .. }, _) => match (w, v) {
            (W::Optional { .. }, V::Opt(Some(x))) => block_tokens(inner, x, out),
            (W::Many { .. } | W::Some_ { .. } | W::Collect { .. }, V::List(xs)) => {
                for x in xs {
                    block_tokens(inner, x, out);
                }
            }
            (W::ParseStep | W::Map, V::Tuple(xs)) if xs.len() == 2 => {
                block_tokens(inner, &xs[1], out);
            }
            (W::Optional { .. } | W::Many { .. } | W::Some_ { .. } | W::Collect { .. }, _) => {}
            (W::Count, _) => {}
            (_, x) => block_tokens(inner, x, out),
        },
        (Spec::Seq(xs), V::Tuple(vs)) if xs.len() == vs.len() => {
            for (x, v) in xs.iter().zip(vs.iter()) {
                block_tokens(x, v, out);
            }
        }
        (Spec::Alt(xs), V::Variant(i, x)) => {
            if let Some(b) = xs.get(*i as usize) {
                block_tokens(b, x, out);
            }
        }
        (Spec::Cmd(c), V::Field(_, x)) => {
            if c.adjacent {
                // the items of an adjacent command are one block as well
                let mut items = Vec::new();
                c.opts.root.level_items(&mut items);
                let mut toks = Vec::new();
                leaves(x, &mut toks);
                // id 0 in front: the block of a command starts at the command name, not at the
                // first declared item
                let mut ids: Vec<Id> = vec![0];
                ids.extend(items.iter().map(|i| i.id));
                out.push((ids, toks));
            }
            block_tokens(&c.opts.root, x, out)
        }
        _ => {}
    }
}

/// On an accepted run: every adjacent-group value must be made of one contiguous run of items
fn contiguity_violation(spec: &OptSpec, argv: &[Vec<u8>], v: &V) -> Option<String> {
    let mut blocks = Vec::new();
    block_tokens(&spec.root, v, &mut blocks);
    if blocks.is_empty() {
        return None;
    }
    // where does each value token of the whole result sit on the line
    let find = |tok: &[u8]| -> Option<usize> {
        if let Some(id) = tok.strip_prefix(b"\0flag:") {
            // a flag of the block: the one item of the line that is exactly one of its names
            let id: Id = std::str::from_utf8(id).ok()?.parse().ok()?;
            let item = spec.root.find_item(id)?;
            let mut names: Vec<Vec<u8>> = Vec::new();
            for c in &item.names.shorts {
                names.push(format!("-{}", c).into_bytes());
            }
            for l in &item.names.longs {
                names.push(format!("--{}", l).into_bytes());
            }
            let at: Vec<usize> = (0..argv.len()).filter(|i| names.contains(&argv[*i])).collect();
            return if at.len() == 1 { Some(at[0]) } else { None };
        }
        // a value that is written twice (a word equal to a command name) cannot be placed
        if argv.iter().filter(|a| a.as_slice() == tok).count() > 1 {
            return None;
        }
        argv.iter().position(|a| a == tok).or_else(|| {
            argv.iter().position(|a| {
                a.len() > tok.len()
                    && a.ends_with(tok)
                    && a.starts_with(b"-")
                    && !tok.is_empty()
            })
        })
    };
    let mut all = Vec::new();
    v.byte_leaves(&mut all);
    let mut all_ix: Vec<usize> = all.iter().filter_map(|t| find(t)).collect();
    let mut ints = Vec::new();
    fn int_leaves(v: &V, out: &mut Vec<Vec<u8>>) {
        match v {
            V::Field(_, x) => {
                if let V::Int(i) = &**x {
                    out.push(format!("{}", i).into_bytes());
                } else {
                    int_leaves(x, out);
                }
            }
            V::Opt(Some(x)) | V::Variant(_, x) => int_leaves(x, out),
            V::List(xs) | V::Tuple(xs) => xs.iter().for_each(|x| int_leaves(x, out)),
            _ => {}
        }
    }
    int_leaves(v, &mut ints);
    all_ix.extend(ints.iter().filter_map(|t| find(t)));
    for (ids, toks) in &blocks {
        let ix: Vec<usize> = toks.iter().filter_map(|t| find(t)).collect();
        if ix.len() < 2 {
            continue;
        }
        let (lo, hi) = (*ix.iter().min().unwrap(), *ix.iter().max().unwrap());
        // the run starts at the group's first item
        if let (Some(first_id), Some(first_tok)) = (ids.first(), toks.first()) {
            if first_tok == &format!("\0flag:{}", first_id).into_bytes() {
                if let Some(at) = find(first_tok) {
                    if at != lo && toks.len() == ix.len() {
                        return Some(format!(
                            "the block's first item sits at {} but the value uses item {} ({})",
                            at,
                            lo,
                            String::from_utf8_lossy(&argv[lo])
                        ));
                    }
                }
            }
        }
        // anything between lo and hi must belong to this block: no token of another field,
        // no foreign item, no name of an item outside the group
        let mut member_names: Vec<Vec<u8>> = Vec::new();
        for id in ids {
            if let Some(i) = spec.root.find_item(*id) {
                for c in &i.names.shorts {
                    member_names.push(format!("-{}", c).into_bytes());
                }
                for l in &i.names.longs {
                    member_names.push(format!("--{}", l).into_bytes());
                }
            }
        }
        for k in lo + 1..hi {
            let a = &argv[k];
            if ix.contains(&k) {
                continue;
            }
            if all_ix.contains(&k) {
                return Some(format!(
                    "item {} ({}) between members of one block belongs to another field",
                    k,
                    String::from_utf8_lossy(a)
                ));
            }
            let is_member_name = member_names
                .iter()
                .any(|n| a == n || (a.starts_with(n) && a.get(n.len()) == Some(&b'=')));
            if a.starts_with(b"-") && !is_member_name && a.len() > 1 {
                // could be a cluster / joined spelling of members: accept if it starts with a
                // member's short name
                let short_member = member_names
                    .iter()
                    .any(|n| n.len() >= 2 && !n.starts_with(b"--") && a.starts_with(n));
                if !short_member {
                    return Some(format!(
                        "item {} ({}) between members of one block is not a member",
                        k,
                        String::from_utf8_lossy(a)
                    ));
                }
            }
        }
    }
    None
}

/// positional members of adjacent groups that sit under an optional/fallback wrapper inside the
/// group, per group: (all member ids, optional positional ids)
fn optional_word_members(s: &Spec, out: &mut Vec<(Vec<Id>, Vec<Id>)>) {
    fn opt_pos(s: &Spec, under: bool, out: &mut Vec<Id>) {
        match s {
            Spec::Item(i) => {
                if under && i.is_pos() {
                    out.push(i.id);
                }
            }
            Spec::Wrap { w, inner, .. } => {
                let u = under
                    || matches!(
                        w,
                        W::Optional { .. }
                            | W::Fallback
                            | W::FallbackWithOk
                            | W::Many { .. }
                            | W::Collect { .. }
                    );
                opt_pos(inner, u, out);
            }
            Spec::Seq(xs) | Spec::Alt(xs) | Spec::Adj(xs) => {
                xs.iter().for_each(|x| opt_pos(x, under, out))
            }
            _ => {}
        }
    }
    match s {
        Spec::Adj(xs) => {
            let mut items = Vec::new();
            for x in xs {
                x.level_items(&mut items);
            }
            let mut o = Vec::new();
            for x in xs {
                opt_pos(x, false, &mut o);
            }
            out.push((items.iter().map(|i| i.id).collect(), o));
        }
        Spec::Wrap { inner, .. } => optional_word_members(inner, out),
        Spec::Seq(xs) | Spec::Alt(xs) => xs.iter().for_each(|x| optional_word_members(x, out)),
        Spec::Cmd(c) => optional_word_members(&c.opts.root, out),
        _ => {}
    }
}

pub fn absent_words_then_word(spec: &OptSpec, units: &[U]) -> bool {
    let mut groups = Vec::new();
    optional_word_members(&spec.root, &mut groups);
    if groups.iter().all(|(_, o)| o.is_empty()) {
        return false;
    }
    let item_of = |u: &U| match &u.kind {
        UKind::Flag { item, .. } | UKind::Arg { item, .. } | UKind::Word { item, .. } => {
            Some(*item)
        }
        _ => None,
    };
    let mut i = 0;
    while i < units.len() {
        let b = match units[i].block {
            Some(b) => b,
            None => {
                i += 1;
                continue;
            }
        };
        let mut j = i;
        while j + 1 < units.len() && units[j + 1].block == Some(b) {
            j += 1;
        }
        let ids: Vec<Id> = units[i..=j].iter().filter_map(item_of).collect();
        if let Some((_, opt)) = groups
            .iter()
            .find(|(members, _)| ids.first().map_or(false, |f| members.contains(f)))
        {
            let absent = !opt.is_empty() && !opt.iter().any(|o| ids.contains(o));
            let next_is_word = units.get(j + 1).map_or(false, |n| {
                matches!(n.kind, UKind::Word { .. } | UKind::CmdName { .. })
            });
            if absent && next_is_word {
                return true;
            }
        }
        i = j + 1;
    }
    false
}

struct Broken {
    units: Vec<U>,
    kind: &'static str,
    /// the line cannot be a sentence whatever the definition (it contains an undeclared item)
    sure: bool,
}

fn break_blocks(spec: &OptSpec, units: &[U], rng: &mut Rng) -> Vec<Broken> {
    let mut out = Vec::new();
    // an item of the enclosing level moved inside the block of an adjacent command
    let names: Vec<usize> = (0..units.len())
        .filter(|i| matches!(units[*i].kind, UKind::CmdName { .. }))
        .collect();
    if !names.is_empty() {
        let ci = *rng.pick(&names);
        let d = units[ci].depth;
        let end = (ci + 1..units.len())
            .find(|i| units[*i].depth <= d)
            .unwrap_or(units.len());
        let outer: Vec<usize> = (0..units.len())
            .filter(|i| {
                (*i < ci || *i >= end)
                    && units[*i].depth == d
                    && units[*i].block.is_none()
                    && matches!(units[*i].kind, UKind::Flag { .. } | UKind::Arg { .. })
            })
            .collect();
        if end - ci >= 3 && !outer.is_empty() {
            let oi = *rng.pick(&outer);
            let at = rng.range(ci + 2, end - 1);
            let mut m = units.to_vec();
            let mut o = m.remove(oi);
            // rendered next to the command's own items
            o.depth = d + 1;
            let at = if oi < at { at - 1 } else { at };
            m.insert(at, o);
            out.push(Broken {
                units: m,
                kind: "command-block-interrupted-by-outer-item",
                sure: false,
            });
        }
        if end - ci >= 2 {
            let at = rng.range(ci + 1, end);
            let mut m = units.to_vec();
            m.insert(
                at,
                U {
                    kind: UKind::Flag {
                        item: 0,
                        names: Names::long(FOREIGN_LONG),
                    },
                    depth: d + 1,
                    block: None,
                    after_dd: false,
                },
            );
            out.push(Broken {
                units: m,
                kind: "command-block-with-foreign-item",
                sure: true,
            });
        }
    }
    let mut blocks: Vec<u32> = units.iter().filter_map(|u| u.block).collect();
    blocks.sort_unstable();
    blocks.dedup();
    if blocks.is_empty() {
        return out;
    }
    let bid = *rng.pick(&blocks);
    let idx: Vec<usize> = (0..units.len())
        .filter(|i| units[*i].block == Some(bid))
        .collect();
    let (lo, hi) = (idx[0], idx[idx.len() - 1]);
    let depth = units[lo].depth;
    let item_of = |u: &U| match &u.kind {
        UKind::Flag { item, .. } | UKind::Arg { item, .. } | UKind::Word { item, .. } => {
            Some(*item)
        }
        _ => None,
    };
    let foreign = U {
        kind: UKind::Flag {
            item: 0,
            names: Names::long(FOREIGN_LONG),
        },
        depth,
        block: None,
        after_dd: false,
    };
    // interrupted by a foreign item between two members
    if idx.len() >= 2 {
        let at = idx[rng.range(1, idx.len() - 1)];
        let mut m = units.to_vec();
        m.insert(at, foreign.clone());
        out.push(Broken {
            units: m,
            kind: "interrupted-by-foreign-item",
            sure: true,
        });
    }
    // interrupted by another declared named item of the same level (taken from the line)
    if idx.len() >= 2 {
        if let Some(other) = units.iter().position(|u| {
            u.block.is_none()
                && u.depth == depth
                && !u.after_dd
                && matches!(u.kind, UKind::Flag { .. } | UKind::Arg { .. })
        }) {
            let at = idx[rng.range(1, idx.len() - 1)];
            let mut m = units.to_vec();
            let o = m.remove(other);
            let at = if other < at { at - 1 } else { at };
            m.insert(at, o);
            // the members after the interruption must include a required one, otherwise the
            // shorter block is legitimately complete and the rest merely unexpected
            out.push(Broken {
                units: m,
                kind: "interrupted-by-declared-item",
                sure: false,
            });
        }
    }
    // a group nested in another group, written in front of the outer block instead of inside it
    {
        let mut k = 1;
        while k < units.len() {
            let (inner, outer) = (units[k].block, units[k - 1].block);
            if inner.is_some() && outer.is_some() && inner != outer {
                // is `inner` nested in `outer` (the outer block started earlier)?
                let lo_outer = units.iter().position(|u| u.block == outer).unwrap_or(0);
                let lo_inner = units.iter().position(|u| u.block == inner).unwrap_or(k);
                if lo_inner == k && lo_outer < k {
                    let mut j = k;
                    while j + 1 < units.len() && units[j + 1].block == inner {
                        j += 1;
                    }
                    let mut m = units.to_vec();
                    let moved: Vec<U> = m.drain(k..=j).collect();
                    for (n, u) in moved.into_iter().enumerate() {
                        m.insert(lo_outer + n, u);
                    }
                    out.push(Broken {
                        units: m,
                        kind: "nested-group-in-front-of-its-outer-block",
                        sure: false,
                    });
                    break;
                }
            }
            k += 1;
        }
    }
    // a nested member split in two: its near half, then a later member of the block, then an item
    // of the enclosing level, then the far half (`-a 1 -z -e 2` for `-a [X Y] [-z]`)
    if idx.len() >= 4 && matches!(units[hi].kind, UKind::Flag { .. }) {
        let outer = units.iter().position(|u| {
            u.block.is_none()
                && u.depth == depth
                && !u.after_dd
                && matches!(u.kind, UKind::Flag { .. } | UKind::Arg { .. })
        });
        if let Some(oi) = outer {
            let far = idx[idx.len() - 2];
            let mut m = units.to_vec();
            let o = m[oi].clone();
            let mut y = m[far].clone();
            y.block = None;
            // remove the higher index first so the lower one stays valid
            let (a, b) = if oi > far { (oi, far) } else { (far, oi) };
            m.remove(a);
            m.remove(b);
            // the block's last unit now sits where `far` was (or one left of it)
            let z_at = m
                .iter()
                .rposition(|u| u.block == Some(bid))
                .unwrap_or(m.len() - 1);
            m.insert(z_at + 1, o);
            m.insert(z_at + 2, y);
            out.push(Broken {
                units: m,
                kind: "nested-member-split-around-later-member",
                sure: false,
            });
        }
    }
    // a word member written right in front of the block's first item (`1 --tag 2`)
    if idx.len() >= 2 && matches!(units[lo].kind, UKind::Flag { .. }) {
        if let Some(wi) = idx[1..]
            .iter()
            .copied()
            .find(|i| matches!(units[*i].kind, UKind::Word { .. }))
        {
            let mut m = units.to_vec();
            let u = m.remove(wi);
            m.insert(lo, u);
            out.push(Broken {
                units: m,
                kind: "word-member-in-front-of-first-item",
                sure: false,
            });
        }
    }
    // required member moved away from the block (to the far end of the level's named region)
    let movable: Vec<usize> = idx[1..]
        .iter()
        .copied()
        .filter(|i| item_of(&units[*i]).map_or(false, |id| member_required(spec, id)))
        .collect();
    if !movable.is_empty() {
        let mi = *rng.pick(&movable);
        let mut m = units.to_vec();
        let mut u = m.remove(mi);
        u.block = None;
        let pos = if rng.chance(1, 2) && lo > 0 && m[..lo].iter().all(|x| x.depth == depth) {
            rng.below(lo)
        } else {
            // right of the rest of the block and of at least one more unit if there is one
            (hi + 1).min(m.len())
        };
        m.insert(pos.min(m.len()), u);
        out.push(Broken {
            units: m,
            kind: "required-member-moved-away",
            sure: false,
        });
        // cut short: the member is simply missing and what follows the block is not a word
        let mut m = units.to_vec();
        m.remove(mi);
        let next_is_word = m
            .get(hi)
            .map_or(false, |n| matches!(n.kind, UKind::Word { .. }));
        let removed_is_word = matches!(units[mi].kind, UKind::Word { .. });
        if !(removed_is_word && next_is_word) {
            out.push(Broken {
                units: m,
                kind: "cut-short",
                sure: false,
            });
        }
    }
    out
}

pub fn run_case(case: &mut Case) {
    let mut rng = case.rng(0);
    let mut o = GenOpts::general();
    o.hidden = false;
    o.alts = false;
    o.decor = false;
    o.strict = false;
    o.adjacent_args = false;
    o.adjacent_optional_words = true;
    o.adjacent_in_adjacent = true;
    let spec = {
        let mut p = Pool::new(&mut rng, o);
        gen_def(&mut p)
    };
    let b = Bench::new(case, spec);
    let n_der = if case.thorough { 30 } else { 12 };
    for di in 0..n_der {
        let mut g = Gen::new(&mut rng);
        g.presence = 6;
        let (d, units, line) = match sentence(
            &b.spec.root,
            &mut g,
            OrderStyle::Random,
            DashDash::IfNeeded,
            SpellStyle::Random,
        ) {
            Some(x) => x,
            None => {
                case.rep.count("underivable");
                continue;
            }
        };
        if absent_words_then_word(&b.spec, &units) {
            // a block whose optional word members are absent, directly followed by a word (or a
            // command name): the block takes that word, the line denotes something else
            case.rep.count("skipped:word-right-after-block-with-absent-optional-words");
            continue;
        }
        let nblocks = {
            let mut bl: Vec<u32> = units.iter().filter_map(|u| u.block).collect();
            bl.sort_unstable();
            bl.dedup();
            bl.len()
        };
        let chain = units
            .iter()
            .filter(|u| matches!(u.kind, UKind::CmdName { .. }))
            .count();
        if chain > 0 {
            case.rep.count(&format!("adjacent-command-chain:{}", chain.min(3)));
        }
        let class = format!("contiguous-blocks:{}", nblocks.min(3));
        if !b.expect_value(case, &line.argv, &d.value, &class, "blocks") {
            continue;
        }
        if di < 2 && nblocks > 0 {
            case.rep.sample(
                case_json(&b.spec, &line.argv)
                    .set("class", class.as_str())
                    .set("denotes", d.value.show()),
            );
        }
        // a name of the block written without its value right in front of the next member:
        // `--rect --w --h 2 7` - the value cannot come from behind the neighbour
        {
            let cl = render(&units, &mut rng, SpellStyle::Canonical);
            let at = (0..cl.argv.len().saturating_sub(3)).find(|&i| {
                let o = &cl.origin;
                o[i].role == Role::ArgName
                    && o[i + 1].role == Role::ArgValue
                    && o[i + 2].role == Role::ArgName
                    && o[i + 3].role == Role::ArgValue
                    && o[i].block.is_some()
                    && o[i].block == o[i + 2].block
                    && o[i].unit != o[i + 2].unit
            });
            if let Some(i) = at {
                let mut argv = cl.argv.clone();
                if rng.chance(1, 2) {
                    // name1 value1 name2 value2 -> name1 name2 value2 value1
                    let v1 = argv.remove(i + 1);
                    argv.insert(i + 3, v1);
                } else {
                    // -> name2 name1 value1 value2 (the member declared later goes without)
                    let n2 = argv.remove(i + 2);
                    argv.insert(i, n2);
                }
                let class = "broken:valueless-name-in-front-of-next-member";
                let (out, _) = b.run(case, &argv, class);
                if let crate::outcome::Outcome::Value(_) = &out {
                    case.rep.violation(
                        "broken-block-yields-value:valueless-name-in-front-of-next-member",
                        "contiguity",
                        case.index,
                        b.detail(
                            &argv,
                            class,
                            "a failure (the first name has no value next to it)",
                            &out,
                        ),
                    );
                }
            }
        }
        for br in break_blocks(&b.spec, &units, &mut rng) {
            let mline = render(&br.units, &mut rng, SpellStyle::Canonical);
            let class = format!("broken:{}", br.kind);
            let (out, _) = b.run(case, &mline.argv, &class);
            if let crate::outcome::Outcome::Value(v) = &out {
                case.rep.count("broken-line-accepted");
                // a broken line may still be a sentence (the moved word may be claimed by a
                // trailing positional, a neighbouring word may complete the block): what must
                // never happen is a block value pieced together from non-neighbouring items
                if let Some(why) = contiguity_violation(&b.spec, &mline.argv, v) {
                    case.rep.violation(
                        &format!("non-contiguous-block-value:{}", br.kind),
                        "contiguity",
                        case.index,
                        b.detail(&mline.argv, &class, &format!("contiguous blocks ({})", why), &out),
                    );
                } else if br.sure {
                    case.rep.violation(
                        &format!("broken-block-yields-value:{}", br.kind),
                        "contiguity",
                        case.index,
                        b.detail(
                            &mline.argv,
                            &class,
                            "a failure (the block is interrupted by an undeclared item)",
                            &out,
                        ),
                    );
                }
            } else if matches!(out, crate::outcome::Outcome::Stdout { .. }) {
                case.rep.violation(
                    &format!("broken-block-yields-stdout:{}", br.kind),
                    "contiguity",
                    case.index,
                    b.detail(&mline.argv, &class, "a failure on stderr", &out),
                );
            }
        }
    }
}
