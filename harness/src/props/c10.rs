//! C10 - asking for help or version always wins and never runs the program.
//!
//! Insertion monitor: into valid, invalid and incomplete lines insert the help (or version)
//! item as an item of its own at every boundary left of `--`; the outcome must be stdout output
//! describing the innermost command entered (levels are told apart by unique header markers).

use super::common::*;
use super::Case;
use crate::deriv::*;
use crate::gen::{gen_options, GenOpts};
use crate::outcome::Outcome;
use crate::rng::Rng;
use crate::spec::*;

pub fn opts() -> GenOpts {
    let mut o = GenOpts::general();
    o.custom_help = true;
    o.cmd_depth = 2;
    o.max_named = 5;
    o.info = true;
    o.types = vec![Ty::Str, Ty::U32, Ty::Os];
    o.cmd_or_words = true;
    o.adjacent_cmds = true;
    o.cmd_fallback = true;
    o.adjacent_cmd_last = true;
    o.hidden_cmds = true;
    o.cmd_catch = true;
    o
}

/// is the command `id` declared under a wrapper that recovers from its failures (`.catch()`)
fn cmd_under_catch(root: &Spec, id: Id) -> bool {
    fn go(s: &Spec, id: Id, caught: bool) -> Option<bool> {
        match s {
            Spec::Cmd(c) if c.id == id => Some(caught),
            Spec::Cmd(c) => go(&c.opts.root, id, false),
            Spec::Wrap { w, inner, .. } => {
                let c = matches!(
                    w,
                    W::Optional { catch: true }
                        | W::Many { catch: true }
                        | W::Some_ { catch: true }
                        | W::Collect { catch: true }
                );
                go(inner, id, caught || c)
            }
            Spec::Seq(xs) | Spec::Alt(xs) | Spec::Adj(xs) => xs.iter().find_map(|x| go(x, id, caught)),
            _ => None,
        }
    }
    go(root, id, false).unwrap_or(false)
}

fn header_of(id: Id) -> String {
    format!("HDR-{}-level", id)
}

/// give every level a unique header; returns nothing, mutates in place
fn set_headers(o: &mut OptSpec, id: Id) {
    o.header = Some(header_of(id));
    o.usage = None;
    fn go(s: &mut Spec) {
        match s {
            Spec::Wrap { inner, .. } => go(inner),
            Spec::Seq(xs) | Spec::Alt(xs) | Spec::Adj(xs) => xs.iter_mut().for_each(go),
            Spec::Cmd(c) => {
                let id = c.id;
                set_headers(&mut c.opts, id);
            }
            _ => {}
        }
    }
    go(&mut o.root);
}

struct Base {
    units: Vec<U>,
    kind: &'static str,
    /// depth at which the line was made invalid
    depth: Option<usize>,
    /// the mutation touched a unit inside an adjacent block
    in_block: bool,
    /// item the mutation duplicated / dropped, if any
    item: Option<Id>,
    /// index (in `units`) where the line was made invalid
    at_unit: Option<usize>,
}

fn invalid_bases(units: &[U], rng: &mut Rng) -> Vec<Base> {
    let mut out = Vec::new();
    if units.is_empty() {
        return out;
    }
    // drop a unit (incomplete line)
    let i = rng.below(units.len());
    if !matches!(units[i].kind, UKind::CmdName { .. } | UKind::DashDash) {
        let mut m = units.to_vec();
        let u = m.remove(i);
        let item = match &u.kind {
            UKind::Flag { item, .. } | UKind::Arg { item, .. } | UKind::Word { item, .. } => {
                Some(*item)
            }
            _ => None,
        };
        out.push(Base {
            units: m,
            kind: "dropped-unit",
            depth: Some(u.depth),
            in_block: u.block.is_some(),
            item,
            at_unit: Some(i),
        });
    }
    // duplicate a unit
    let i = rng.below(units.len());
    if matches!(units[i].kind, UKind::Flag { .. } | UKind::Arg { .. }) && !units[i].after_dd {
        let mut m = units.to_vec();
        let u = m[i].clone();
        m.insert(i, u.clone());
        let item = match &u.kind {
            UKind::Flag { item, .. } | UKind::Arg { item, .. } => Some(*item),
            _ => None,
        };
        out.push(Base {
            units: m,
            kind: "duplicated-unit",
            depth: Some(u.depth),
            in_block: u.block.is_some(),
            item,
            at_unit: Some(i),
        });
    }
    // foreign flag
    let i = rng.below(units.len() + 1);
    let (depth, after_dd) = if i == 0 {
        (0, false)
    } else {
        let p = &units[i - 1];
        let d = if matches!(p.kind, UKind::CmdName { .. }) {
            p.depth + 1
        } else {
            p.depth
        };
        (d, p.after_dd || p.kind == UKind::DashDash)
    };
    if !after_dd {
        let mut m = units.to_vec();
        m.insert(
            i,
            U {
                kind: UKind::Flag {
                    item: 0,
                    names: Names::long(FOREIGN_LONG),
                },
                depth,
                block: None,
                after_dd: false,
            },
        );
        out.push(Base {
            units: m,
            kind: "foreign-flag",
            depth: Some(depth),
            in_block: i > 0
                && i < units.len()
                && units[i].block.is_some()
                && units[i].block == units[i - 1].block,
            item: None,
            at_unit: Some(i),
        });
    }
    // corrupt a numeric value
    if let Some(i) = units.iter().position(|u| match &u.kind {
        UKind::Arg { value, .. } | UKind::Word { value, .. } => {
            !value.is_empty() && value.iter().all(u8::is_ascii_digit)
        }
        _ => false,
    }) {
        let mut m = units.to_vec();
        if let UKind::Arg { value, .. } | UKind::Word { value, .. } = &mut m[i].kind {
            *value = b"notanumber".to_vec();
        }
        out.push(Base {
            depth: Some(m[i].depth),
            in_block: m[i].block.is_some(),
            item: None,
            at_unit: Some(i),
            units: m,
            kind: "corrupted-number",
        });
    }
    out
}

/// Two alternatives that read the same option with different types and then enter a command of
/// the same name (`[--target=N cmd | --target=NAME cmd]`): when the first fails to convert the
/// value and the second one shows the command's help, help wins
fn twin_alternatives_scenario(case: &mut Case, rng: &mut Rng) {
    let name = format!("target{}", rng.below(100));
    let cmd_name = format!("restart{}", rng.below(100));
    let arg = |id: Id, ty: Ty| {
        Spec::Item(Item {
            id,
            names: Names::long(&name),
            help: None,
            leaf: Leaf::Arg {
                ty,
                metavar: format!("M{}", id),
                adjacent: false,
            },
        })
    };
    let cmd = |id: Id, with_version: bool| {
        let mut opts = OptSpec::plain(Spec::Seq(vec![Spec::Item(Item {
            id: id + 1,
            names: Names::short('f'),
            help: None,
            leaf: Leaf::Switch,
        })]));
        opts.header = Some(header_of(id));
        if with_version {
            opts.version = Some("7.7.7".to_string());
        }
        Spec::Cmd(Box::new(CmdSpec {
            id,
            names: vec![cmd_name.clone()],
            shorts: vec![],
            help: None,
            adjacent: false,
            opts,
        }))
    };
    let with_version = rng.chance(1, 2);
    let mut spec = OptSpec::plain(Spec::Seq(vec![Spec::Alt(vec![
        Spec::Seq(vec![arg(1, Ty::U32), cmd(10, with_version)]),
        Spec::Seq(vec![arg(2, Ty::Str), cmd(20, with_version)]),
    ])]));
    spec.header = Some(header_of(0));
    let b = Bench::new(case, spec);
    let ask = if with_version && rng.chance(1, 2) {
        "--version"
    } else {
        "--help"
    };
    let mut argv: Vec<Vec<u8>> = vec![
        format!("--{}", name).into_bytes(),
        b"web-1".to_vec(),
        cmd_name.clone().into_bytes(),
    ];
    if rng.chance(1, 2) {
        argv.push(b"-f".to_vec());
    }
    argv.push(ask.as_bytes().to_vec());
    let (out, _) = b.run(case, &argv, "help:twin-alternatives");
    let ok = match &out {
        Outcome::Stdout { text, .. } => {
            if ask == "--version" {
                text.contains("Version: 7.7.7")
            } else {
                text.contains(&header_of(10)) || text.contains(&header_of(20))
            }
        }
        _ => false,
    };
    if !ok && !matches!(out, Outcome::Panic(_) | Outcome::FuelExhausted) {
        case.rep.violation(
            &format!("help-or-version-lost:twin-alternatives:{}", out.class()),
            "help-wins",
            case.index,
            b.detail(
                &argv,
                "help:twin-alternatives",
                "Stdout describing the command that was entered",
                &out,
            ),
        );
    }
}

/// `-h HOST` / `-V LEVEL` of the user's own next to a subcommand: the attached spelling
/// (`-hlocalhost`) is an ordinary argument, a help request on the same line wins as always
fn builtin_letter_as_argument_scenario(case: &mut Case, rng: &mut Rng) {
    let letter = if rng.chance(1, 2) { 'h' } else { 'V' };
    let user = Spec::wrap(
        W::Optional { catch: false },
        2,
        Spec::Item(Item {
            id: 1,
            names: Names::short(letter),
            help: None,
            leaf: Leaf::Arg {
                ty: Ty::Str,
                metavar: "M1".into(),
                adjacent: false,
            },
        }),
    );
    let mut copts = OptSpec::plain(Spec::Seq(vec![Spec::Item(Item {
        id: 11,
        names: Names::short('f'),
        help: None,
        leaf: Leaf::Switch,
    })]));
    copts.header = Some(header_of(10));
    let cmd = Spec::Cmd(Box::new(CmdSpec {
        id: 10,
        names: vec!["run".to_string()],
        shorts: vec![],
        help: None,
        adjacent: false,
        opts: copts,
    }));
    let mut spec = OptSpec::plain(Spec::Seq(vec![user, cmd]));
    spec.header = Some(header_of(0));
    let b = Bench::new(case, spec);
    let attached = format!("-{}localhost", letter).into_bytes();
    let (argv, level): (Vec<Vec<u8>>, Id) = match rng.below(3) {
        0 => (vec![attached, b"run".to_vec(), b"--help".to_vec()], 10),
        1 => (vec![attached, b"--help".to_vec()], 0),
        _ => (vec![b"--help".to_vec(), attached, b"run".to_vec()], 0),
    };
    let (out, _) = b.run(case, &argv, "help:builtin-letter-declared-as-argument");
    let ok = matches!(&out, Outcome::Stdout { text, .. } if text.contains(&header_of(level)));
    if !ok && !matches!(out, Outcome::Panic(_) | Outcome::FuelExhausted) {
        case.rep.violation(
            &format!("help-or-version-lost:builtin-letter-declared-as-argument:{}", out.class()),
            "help-wins",
            case.index,
            b.detail(
                &argv,
                "help:builtin-letter-declared-as-argument",
                &format!("Stdout with marker {}", header_of(level)),
                &out,
            ),
        );
    }
}

pub fn run_case(case: &mut Case) {
    let mut rng = case.rng(0);
    if rng.chance(1, 16) {
        twin_alternatives_scenario(case, &mut rng);
        return;
    }
    if rng.chance(1, 24) {
        builtin_letter_as_argument_scenario(case, &mut rng);
        return;
    }
    let mut spec = gen_options(&mut rng, opts());
    set_headers(&mut spec, 0);
    let b = Bench::new(case, spec);
    let hidden = super::c02::hidden_items(&b.spec);
    let n_der = if case.thorough { 10 } else { 4 };
    for di in 0..n_der {
        let mut g = Gen::new(&mut rng);
        let d = match derive(&b.spec.root, &mut g) {
            Some(d) => d,
            None => {
                case.rep.count("underivable");
                continue;
            }
        };
        let units = match order_units(&d.atoms, &mut rng, OrderStyle::Random, DashDash::Random) {
            Some(u) => u,
            None => continue,
        };
        let mut bases = vec![Base {
            units: units.clone(),
            kind: "valid",
            depth: None,
            in_block: false,
            item: None,
            at_unit: None,
        }];
        bases.extend(invalid_bases(&units, &mut rng));
        // a duplicated member of a repeated/optional *group* is claimed by the group, which
        // then fails for want of its other members: that is a failing field, not a stray item
        for base in &mut bases {
            if let Some(id) = base.item {
                if let Some(path) = b.spec.root.path_to(id) {
                    let from = path
                        .iter()
                        .rposition(|e| matches!(e, PathEl::Cmd(_)))
                        .map_or(0, |c| c + 1);
                    let seqs = path[from..]
                        .iter()
                        .filter(|e| matches!(e, PathEl::Seq))
                        .count();
                    if seqs >= 2 {
                        base.in_block = true;
                    }
                }
            }
        }
        for base in bases.iter() {
            let line = render_cfg(&base.units, &mut rng, SpellStyle::Random, &hidden);
            let bounds = boundaries_before_dd(&line);
            for &at in &bounds {
                if !case.thorough && bounds.len() > 5 && !rng.chance(5, bounds.len()) {
                    continue;
                }
                // levels entered left of the insertion point
                let mut path: Vec<(&OptSpec, Id)> = vec![(&b.spec, 0)];
                // a chain of adjacent commands returns to the declaring level after each block:
                // the depth of a unit tells which level it was written for. Right of an item of
                // the declaring level that follows a block it depends on the declaration order
                // whether the block's command still sees the help item: not decided here
                let mut left_adjacent_block = false;
                let mut adjacent_levels: Vec<bool> = vec![false];
                let mut last_unit = usize::MAX;
                for o in &line.origin[..at] {
                    if o.unit == last_unit {
                        continue;
                    }
                    last_unit = o.unit;
                    let u = &base.units[o.unit];
                    if u.depth + 1 < path.len() {
                        if adjacent_levels[u.depth + 1..].iter().any(|a| *a)
                            && !matches!(u.kind, UKind::CmdName { .. })
                        {
                            left_adjacent_block = true;
                        }
                        path.truncate(u.depth + 1);
                        adjacent_levels.truncate(u.depth + 1);
                    }
                    if let UKind::CmdName { id, .. } = &u.kind {
                        left_adjacent_block = false;
                        let mut cmds = Vec::new();
                        path.last().unwrap().0.root.level_cmds(&mut cmds);
                        if let Some(c) = cmds.into_iter().find(|c| c.id == *id) {
                            path.push((&c.opts, c.id));
                            adjacent_levels.push(c.adjacent);
                        }
                    }
                }
                if left_adjacent_block {
                    case.rep.count("skipped:right-of-outer-item-after-adjacent-command-block");
                    continue;
                }
                // an unclaimed item (foreign flag, surplus duplicate) left of a command name keeps
                // that command from being entered: the innermost entered level is then the one
                // the stray item sits in - or, when the duplicate is claimed after all, the
                // deeper one. Both readings are accepted, provided they share the help item.
                // (inside an adjacent block the same item breaks the block instead: the group field
                // of that level fails)
                let stray =
                    matches!(base.kind, "foreign-flag" | "duplicated-unit") && !base.in_block;
                let floor = match base.depth {
                    Some(d) if stray && d < path.len() - 1 => d,
                    _ => path.len() - 1,
                };
                // the block of an adjacent command ends where its parser stops consuming: a help
                // item next to it is answered by the command or by the level that declares it
                let floor = match adjacent_levels.iter().position(|a| *a) {
                    Some(a) => floor.min(a.saturating_sub(1)),
                    None => floor,
                };
                // the line was made invalid in an earlier block of the chain than the one the
                // help item goes into
                let ins_unit = line.origin.get(at).map_or(base.units.len(), |o| o.unit);
                let earlier_block_invalid = base.at_unit.map_or(false, |iu| {
                    // a dropped unit belonged to the block of the unit in front of it
                    let iu = if base.kind == "dropped-unit" {
                        iu.saturating_sub(1)
                    } else {
                        iu
                    };
                    (iu + 1..=ins_unit.min(base.units.len().saturating_sub(1))).any(|k| {
                        matches!(&base.units[k].kind, UKind::CmdName { id, .. }
                            if b.spec.root.find_cmd(*id).map_or(false, |c| c.adjacent))
                    })
                });
                // a subcommand under `optional().catch()`: when it fails the line is handed back
                // to the enclosing level as it was, and that level answers a help item on it
                let caught_at = (1..path.len()).find(|&i| cmd_under_catch(&b.spec.root, path[i].1));
                let floor = match caught_at {
                    Some(i) if base.kind != "valid" => floor.min(i - 1),
                    _ => floor,
                };
                let (lvl, lvl_id) = *path.last().unwrap();
                let depth = path.len() - 1;
                if floor < depth {
                    let same_items = path[floor..].iter().all(|(l, _)| {
                        l.help_names() == lvl.help_names()
                            && l.version_names() == lvl.version_names()
                            && l.version.is_some() == lvl.version.is_some()
                    });
                    if !same_items {
                        case.rep.inconclusive("entered-level-ambiguous-and-help-items-differ");
                        continue;
                    }
                }
                let inside_block = at > 0
                    && at < line.argv.len()
                    && line.origin[at].block.is_some()
                    && line.origin[at].block == line.origin[at - 1].block;
                let between_name_and_value = at > 0
                    && at < line.argv.len()
                    && line.origin[at - 1].role == Role::ArgName;

                // which item to insert
                let want_version = rng.chance(1, 4);
                let names = if want_version {
                    lvl.version_names()
                } else {
                    lvl.help_names()
                };
                let k = rng.below(names.shorts.len() + names.longs.len());
                let item = if k < names.shorts.len() {
                    format!("-{}", names.shorts[k])
                } else {
                    format!("--{}", names.longs[k - names.shorts.len()])
                };
                let mut argv = line.argv.clone();
                argv.insert(at, item.clone().into_bytes());

                let class = format!(
                    "{}:{}{}",
                    if want_version { "version" } else { "help" },
                    base.kind,
                    if between_name_and_value {
                        ":between-name-and-value"
                    } else if inside_block {
                        ":inside-adjacent-block"
                    } else {
                        ""
                    }
                );
                let (out, _) = b.run(case, &argv, &class);
                case.rep.count(&format!("depth:{}", depth));

                if want_version && lvl.version.is_none() {
                    // an ordinary unknown flag: on a valid line that is a failure (which `catch`
                    // recovers from: the enclosing level then finds its own version flag)
                    if caught_at.is_some() {
                        case.rep.inconclusive("unconfigured-version-flag-in-a-caught-command");
                        continue;
                    }
                    if base.kind == "valid" && !out.is_stderr() && !matches!(out, Outcome::Panic(_))
                    {
                        case.rep.violation(
                            &format!("unconfigured-version-flag:{}", out.class()),
                            "version-not-configured",
                            case.index,
                            b.detail(&argv, &class, "Stderr (version was not configured)", &out),
                        );
                    }
                    continue;
                }

                let acceptable: Vec<Id> = path[floor..].iter().map(|p| p.1).collect();
                let _ = lvl_id;
                let ok = match &out {
                    Outcome::Stdout { text, .. } => {
                        if want_version {
                            path.iter().any(|(l, id)| {
                                acceptable.contains(id)
                                    && l.version
                                        .as_ref()
                                        .map_or(false, |v| text.contains(&format!("Version: {}", v)))
                            })
                        } else {
                            acceptable.iter().any(|id| text.contains(&header_of(*id)))
                                && text.contains("Usage")
                        }
                    }
                    _ => false,
                };
                if ok {
                    case.rep.count("won");
                    if di == 0 && at == bounds[bounds.len() / 2] {
                        case.rep.sample(
                            case_json(&b.spec, &argv)
                                .set("class", class.as_str())
                                .set("inserted", item.as_str())
                                .set("observed", out.show()),
                        );
                    }
                    continue;
                }
                if matches!(out, Outcome::Panic(_) | Outcome::FuelExhausted) {
                    continue;
                }
                // structured facts for attribution
                // a field of an enclosing level (declared before the command) fails while the
                // command itself is entered: sequential composition reports that field first
                let enclosing_invalid = !stray && base.depth.map_or(false, |d| d < depth);
                // a block of the active level is broken by the inserted item or by the mutation
                let block_broken =
                    inside_block || (base.in_block && base.depth == Some(depth));
                let fact = if enclosing_invalid {
                    // shows either as the enclosing field's error or as the enclosing level's
                    // help/version text
                    "enclosing-level-invalid".to_string()
                } else if earlier_block_invalid {
                    // `cmd1 <invalid> cmd2 --help`: the chain is evaluated block by block, the
                    // earlier block answers with its own error or its own help
                    "earlier-adjacent-command-invalid".to_string()
                } else if matches!(out, Outcome::Stdout { .. }) {
                    "wrong-level:stdout".to_string()
                } else if block_broken {
                    format!("adjacent-block-broken:{}", out.class())
                } else {
                    format!("other:{}", out.class())
                };
                let sig = format!("help-or-version-lost:{}", fact);
                case.rep.violation(
                    &sig,
                    "help-wins",
                    case.index,
                    b.detail(
                        &argv,
                        &class,
                        &format!(
                            "Stdout describing level {} (inserted {:?} at item {})",
                            lvl_id, item, at
                        ),
                        &out,
                    ),
                );
            }
        }
    }
}
