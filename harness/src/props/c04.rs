//! C04 - running a parser is total, terminating and pure.
//!
//! Refuting events: a panic, the fuel hook firing, or two runs of the same definition on the
//! same vector giving different outcomes (same parser again, after other runs, fresh parser).

use super::common::*;
use super::Case;
use crate::build::build_options;
use crate::deriv::{sentence, DashDash, Gen, OrderStyle, SpellStyle};
use crate::gen::GenOpts;
use crate::json::J;
use crate::outcome::*;
use crate::spec::*;

pub fn opts() -> GenOpts {
    let mut o = GenOpts::general();
    o.pure_fail = true;
    o.completers = true;
    o.shell_completers = true;
    o.custom_help = true;
    o.pos_and_cmd = true;
    o.cmd_or_words = true;
    o.twins = true;
    o.any = true;
    o.adjacent_optional_words = true;
    o.adjacent_in_adjacent = true;
    // items may have environment fallbacks; in a third of the cases every declared variable is set
    o.env = true;
    o.env_only = false;
    o.usage_fallback = true;
    o.catch = true;
    o.adjacent_cmds = true;
    o.adjacent_branch = true;
    o
}

const REVS: &[usize] = &[0, 1, 7, 8, 9];

fn signature_of(o: &Outcome, mode: &str) -> String {
    match o {
        Outcome::Panic(m) if m.contains("adjacent should start with a required argument") => {
            "panic:usage-bug-accepted-by-check-invariants:adjacent-group-without-first-item"
                .to_string()
        }
        Outcome::Panic(m) => {
            // key on the panic site, not on the message payload
            let site = m.rsplit(" @ ").next().unwrap_or("?");
            format!("panic@{}:{}", site, mode_class(mode))
        }
        Outcome::FuelExhausted => format!("fuel:{}", mode_class(mode)),
        _ => "impure".to_string(),
    }
}

fn mode_class(mode: &str) -> &str {
    mode.split('/').next().unwrap_or(mode)
}

/// batteries are ordinary parsers of the library: any number of `-v`/`-q`, in any spelling and
/// order, gives the clamped level (`verbose_and_quiet_by_number`) or the clamped element
/// (`verbose_by_slice`); `toggle_flag` gives the last of its two names. Never a panic, the same
/// answer twice.
#[cfg(feature = "bat")]
fn batteries_case(case: &mut Case) {
    use bpaf::batteries::{toggle_flag, verbose_and_quiet_by_number, verbose_by_slice};
    use bpaf::Parser;
    let mut rng = case.rng(7);
    let offset = rng.below(4) as isize;
    let min = -(rng.below(3) as isize);
    let max = offset + rng.below(4) as isize;
    // argument vector: -v, -q, --verbose, --quiet, clusters of both, toggles
    let mut argv: Vec<String> = Vec::new();
    let (mut v, mut q) = (0isize, 0isize);
    let mut toggle: Option<bool> = None;
    for _ in 0..rng.below(9) {
        match rng.below(7) {
            0 => {
                argv.push("-v".into());
                v += 1;
            }
            1 => {
                argv.push("-q".into());
                q += 1;
            }
            2 => {
                argv.push("--verbose".into());
                v += 1;
            }
            3 => {
                argv.push("--quiet".into());
                q += 1;
            }
            4 => {
                let mut c = String::from("-");
                for _ in 0..2 + rng.below(6) {
                    if rng.chance(1, 2) {
                        c.push('v');
                        v += 1;
                    } else {
                        c.push('q');
                        q += 1;
                    }
                }
                argv.push(c);
            }
            5 => {
                argv.push("--on".into());
                toggle = Some(true);
            }
            _ => {
                argv.push("--off".into());
                toggle = Some(false);
            }
        }
    }
    let refs: Vec<&str> = argv.iter().map(String::as_str).collect();
    let want_num = (v - q + offset).clamp(min, max);
    let want_idx = (v - q + offset).clamp(0, 3) as usize;
    let num = {
        let level = verbose_and_quiet_by_number(offset, min, max);
        let tg = toggle_flag(bpaf::long("on"), true, bpaf::long("off"), false);
        bpaf::construct!(level, tg).to_options()
    };
    let sl = {
        let level = verbose_by_slice(offset as usize, [10usize, 11, 12, 13]);
        let tg = toggle_flag(bpaf::long("on"), true, bpaf::long("off"), false);
        bpaf::construct!(level, tg).to_options()
    };
    for (name, got) in [
        (
            "verbose_and_quiet_by_number",
            guarded(RENDER_FUEL, || {
                (
                    num.run_inner(&refs[..]).map_err(|_| ()),
                    num.run_inner(&refs[..]).map_err(|_| ()),
                )
            })
            .0
            .map(|(a, b)| (a.clone() == b, a.map(|(l, t)| (l as i64, t)))),
        ),
        (
            "verbose_by_slice",
            guarded(RENDER_FUEL, || {
                (
                    sl.run_inner(&refs[..]).map_err(|_| ()),
                    sl.run_inner(&refs[..]).map_err(|_| ()),
                )
            })
            .0
            .map(|(a, b)| (a.clone() == b, a.map(|(l, t)| (l as i64, t)))),
        ),
    ] {
        case.rep.count(&format!("batteries:{}", name));
        case.rep.max("batteries_quiet_minus_verbose_max", (q - v).max(0) as u64);
        let want = if name == "verbose_by_slice" {
            (10 + want_idx as i64, toggle)
        } else {
            (want_num as i64, toggle)
        };
        let witness = |observed: String| {
            J::obj()
                .set("parser", name)
                .set("offset", offset as i64)
                .set("min", min as i64)
                .set("max", max as i64)
                .set("argv", argv.join(" ").as_str())
                .set("expected", format!("{:?}", want).as_str())
                .set("observed", observed.as_str())
        };
        match got {
            Err(o) => case.rep.violation(
                &signature_of(&o, &format!("batteries/{}", name)),
                "total",
                case.index,
                witness(o.show()),
            ),
            Ok((same, r)) => {
                if !same {
                    case.rep.violation(
                        &format!("impure:batteries/{}", name),
                        "purity",
                        case.index,
                        witness(format!("{:?}", r)),
                    );
                }
                if r != Ok(want) {
                    case.rep.violation(
                        &format!("batteries-wrong-level:{}", name),
                        "total",
                        case.index,
                        witness(format!("{:?}", r)),
                    );
                }
            }
        }
    }
}

pub fn run_case(case: &mut Case) {
    #[cfg(feature = "bat")]
    batteries_case(case);
    let mut rng = case.rng(0);
    LONG_ITEM_MAX.with(|m| m.set(if case.thorough { 2048 } else { 1200 }));
    let spec = {
        let o = opts();
        let depth = o.cmd_depth;
        let mut p = crate::gen::Pool::new(&mut rng, o);
        let mut spec = p.level(depth);
        // definitions in which a cluster can be ambiguous are invariant-respecting too
        if p.rng.chance(1, 4) {
            p.inject_ambiguous(&mut spec);
        }
        spec
    };
    let mut spec = spec;
    if rng.chance(1, 40) {
        // `construct!(pure(..), flag).adjacent()`: documented as a usage bug, but it is a parser
        // that passes `check_invariants`
        if let Spec::Seq(fields) = &mut spec.root {
            let flag = Spec::Item(Item {
                id: 900_002,
                names: Names::long("adjacent-after-pure"),
                help: None,
                leaf: Leaf::ReqFlag,
            });
            let g = Spec::Adj(vec![Spec::Pure(900_001), flag]);
            fields.insert(0, Spec::wrap(W::Optional { catch: false }, 900_003, g));
        }
    }
    if rng.chance(1, 3) {
        // multi-paragraph help texts with indented and fenced code blocks
        crate::emit::decorate(&mut spec.root, &mut rng);
    }
    // an adjacent group inside a repeated adjacent group multiplies the (already cubic) cost of a
    // long cluster of its first letter: such definitions get shorter long items
    fn nested_adjacent(s: &Spec, inside: bool) -> bool {
        match s {
            Spec::Adj(xs) => inside || xs.iter().any(|x| nested_adjacent(x, true)),
            Spec::Wrap { inner, .. } => nested_adjacent(inner, inside),
            Spec::Seq(xs) | Spec::Alt(xs) => xs.iter().any(|x| nested_adjacent(x, inside)),
            Spec::Cmd(c) => nested_adjacent(&c.opts.root, false),
            _ => false,
        }
    }
    if nested_adjacent(&spec.root, false) {
        LONG_ITEM_MAX.with(|m| m.set(400));
        case.rep.count("shape:adjacent-in-adjacent");
    }
    struct Unset(Vec<String>);
    impl Drop for Unset {
        fn drop(&mut self) {
            for v in &self.0 {
                std::env::remove_var(v);
            }
        }
    }
    let mut env_guard = Unset(Vec::new());
    if rng.chance(1, 3) {
        let mut items = Vec::new();
        spec.root.all_items(&mut items);
        for it in &items {
            for v in &it.names.envs {
                std::env::set_var(v, "7");
                env_guard.0.push(v.clone());
            }
        }
        if !env_guard.0.is_empty() {
            case.rep.count("cases-with-variables-set");
        }
    }
    let h = spec.hash64();
    case.rep.definition(h);
    let parser = build_options(&spec);
    let alpha = alphabet(&spec);
    let pretty = spec.pretty();
    case.say(&format!("definition: {}", pretty));
    for (needle, shape) in [
        ("]any(", "shape:any-or-literal"),
        (".anywhere()", "shape:anywhere"),
        (".adjacent()", "shape:adjacent"),
        (".fallback_to_usage()", "shape:fallback-to-usage"),
        (".command(", "shape:commands"),
    ] {
        if pretty.contains(needle) {
            case.rep.count(shape);
        }
    }

    // invariant check is part of the quantifier: definitions that fail it are discarded
    let (inv, _) = guarded(RENDER_FUEL, || parser.check_invariants(false));
    if let Err(o) = inv {
        if matches!(o, Outcome::FuelExhausted) {
            case.rep.violation(
                "fuel:check_invariants",
                "total",
                case.index,
                J::obj()
                    .set("definition", def_json(&spec))
                    .set("mode", "check_invariants")
                    .set("observed", o.show()),
            );
        } else {
            case.rep.count("discarded_by_check_invariants");
        }
        return;
    }

    // documentation renderers: once per definition, twice for purity
    for (name, f) in [
        (
            "markdown",
            Box::new(|p: &bpaf::OptionParser<crate::spec::V>| p.render_markdown("app"))
                as Box<dyn Fn(&bpaf::OptionParser<crate::spec::V>) -> String>,
        ),
        ("html", Box::new(|p| p.render_html("app"))),
        (
            "manpage",
            Box::new(|p| {
                p.render_manpage(
                    "app",
                    bpaf::doc::Section::General,
                    Some("2026-01-01"),
                    None,
                    None,
                )
            }),
        ),
    ] {
        let fuel = fuel_for(&spec, &[]);
        let (a, _) = guarded(fuel, || f(&parser));
        let (b, _) = guarded(fuel, || f(&parser));
        case.rep.exec(h, &[name.as_bytes().to_vec()], 1000, true);
        case.rep.count(&format!("mode:{}", name));
        match (a, b) {
            (Ok(x), Ok(y)) => {
                if x != y {
                    case.rep.violation(
                        "impure-doc",
                        "purity",
                        case.index,
                        J::obj().set("definition", def_json(&spec)).set("mode", name),
                    );
                }
            }
            (Err(o), _) | (_, Err(o)) => {
                case.rep.violation(
                    &signature_of(&o, name),
                    "total",
                    case.index,
                    J::obj()
                        .set("definition", def_json(&spec))
                        .set("mode", name)
                        .set("observed", o.show()),
                );
            }
        }
    }

    let n_vec = if case.thorough { 60 } else { 24 };
    let mut unrelated: Vec<Vec<Vec<u8>>> = Vec::new();
    for _ in 0..5 {
        unrelated.push(noise_vector(&alpha, &mut rng, 6));
    }

    for vi in 0..n_vec {
        // vector: sentence, or noise
        let argv: Vec<Vec<u8>> = if vi % 3 == 0 {
            let mut g = Gen::new(&mut rng);
            g.hostile = true;
            match sentence(
                &spec.root,
                &mut g,
                OrderStyle::Random,
                DashDash::Random,
                SpellStyle::Random,
            ) {
                Some((_, _, line)) => line.argv,
                None => noise_vector(&alpha, &mut rng, 12),
            }
        } else {
            let max = if vi % 7 == 0 { 40 } else { 10 };
            noise_vector(&alpha, &mut rng, max)
        };

        // mode
        let named = rng.chance(1, 2);
        let (mode, ropts) = match rng.below(3) {
            0 => {
                let rev = *rng.pick(REVS);
                (
                    format!("complete-rev{}{}", rev, if named { "-named" } else { "" }),
                    RunOpts {
                        name: if named { Some("app".into()) } else { None },
                        comp: Some(rev),
                        fuel: fuel_for(&spec, &argv),
                    },
                )
            }
            _ => (
                format!("parse{}", if named { "-named" } else { "" }),
                RunOpts {
                    name: if named { Some("app".into()) } else { None },
                    comp: None,
                    fuel: fuel_for(&spec, &argv),
                },
            ),
        };
        let mode_id = crate::rng::fnv(mode.as_bytes());

        let (o1, _, hk) = run_full(&parser, &argv, &ropts);
        case.rep.exec(h, &argv, mode_id, !argv.is_empty());
        case.rep.count(&format!("mode:{}", mode));
        case.rep.count(&format!("outcome:{}", o1.class()));
        case.rep.max("fuel_ticks_max", hk.ticks);
        case.rep.add("ledger_checks", hk.ledger_checks);
        if let Some(longest) = argv.iter().map(Vec::len).max() {
            case.rep.max("longest_item_bytes", longest as u64);
        }
        case.rep.max("argv_len_max", argv.len() as u64);
        if vi == 1 {
            case.rep.sample(
                case_json(&spec, &argv)
                    .set("mode", mode.as_str())
                    .set("observed", o1.show())
                    .set("ticks", hk.ticks)
                    .set("verdict", "held"),
            );
        }
        if ropts.comp.is_none() && o1.is_value() {
            if let Some((_, _, ledger)) = hk.accepts.last() {
                if ledger.len() < argv.len() {
                    case.rep.violation(
                        "argument-lost-before-parsing",
                        "ledger",
                        case.index,
                        case_json(&spec, &argv)
                            .set("items_in_state", ledger.len())
                            .set("arguments", argv.len())
                            .set("observed", o1.show()),
                    );
                }
            }
        }
        for m in &hk.ledger_mismatch {
            case.rep.violation(
                "ledger-mismatch",
                "ledger",
                case.index,
                case_json(&spec, &argv).set("event", m.as_str()),
            );
        }

        if matches!(o1, Outcome::Panic(_) | Outcome::FuelExhausted) {
            case.rep.violation(
                &signature_of(&o1, &mode),
                "total",
                case.index,
                case_json(&spec, &argv)
                    .set("mode", mode.as_str())
                    .set("observed", o1.show())
                    .set("ticks", hk.ticks),
            );
            continue;
        }

        // purity: again, after unrelated runs, and on a fresh parser
        let (o2, _, _) = run_full(&parser, &argv, &ropts);
        for u in &unrelated {
            let _ = run_full(
                &parser,
                u,
                &RunOpts {
                    fuel: fuel_for(&spec, u),
                    ..RunOpts::default()
                },
            );
        }
        let (o3, _, _) = run_full(&parser, &argv, &ropts);
        let fresh = build_options(&spec);
        let (o4, _, _) = run_full(&fresh, &argv, &ropts);
        case.rep.add("purity_reruns", 3);
        if o1 != o2 || o1 != o3 || o1 != o4 {
            case.rep.violation(
                "impure",
                "purity",
                case.index,
                case_json(&spec, &argv)
                    .set("mode", mode.as_str())
                    .set("run1", o1.show())
                    .set("run2", o2.show())
                    .set("run3_after_other_runs", o3.show())
                    .set("run4_fresh_parser", o4.show()),
            );
        }
    }
}
