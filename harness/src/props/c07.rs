//! C07 - alternatives are exclusive and chosen by what the user typed.
//!
//! Derivation-directed over choices of 2-4 alternatives with disjoint names (flags, arguments,
//! groups, commands; bare, optional, defaulted, repeated): one alternative's items yield that
//! alternative's value; items of two alternatives of a non-repeated choice fail on stderr; under
//! many/some the collected values follow command-line order; when several alternatives can
//! succeed the one that consumed the leftmost item wins, ties go to the first listed.

use super::common::*;
use super::Case;
use crate::deriv::*;
use crate::gen::{GenOpts, Pool};
use crate::spec::*;

#[derive(Clone, Copy, PartialEq, Eq, Debug)]
enum Wrapping {
    Bare,
    Optional,
    Fallback,
    Many,
    Some_,
}

struct Def {
    spec: OptSpec,
    /// index of the choice among the root fields
    choice_ix: usize,
    wrapping: Wrapping,
    n_branches: usize,
    soft: bool,
    commands: bool,
}

fn gen_def(p: &mut Pool) -> Def {
    let mut fields = Vec::new();
    for _ in 0..p.rng.below(3) {
        fields.push(p.named_field());
    }
    let wrapping = *p.rng.pick(&[
        Wrapping::Bare,
        Wrapping::Bare,
        Wrapping::Optional,
        Wrapping::Fallback,
        Wrapping::Many,
        Wrapping::Some_,
    ]);
    let repeated = matches!(wrapping, Wrapping::Many | Wrapping::Some_);
    if wrapping == Wrapping::Many && p.rng.chance(1, 3) {
        // a repeated choice between adjacent commands: `build --release test build`
        let chain = p.adjacent_command_chain();
        let n = branches_of(&chain).len();
        let choice_ix = fields.len();
        fields.push(chain);
        return Def {
            spec: OptSpec::plain(Spec::Seq(fields)),
            choice_ix,
            wrapping,
            n_branches: n,
            soft: false,
            commands: true,
        };
    }
    if repeated && p.rng.chance(1, 4) {
        // a repeated choice between an adjacent group and single flags:
        // `construct!([rect, mirror, verbose]).many()`
        let choice = p.adjacent_group_in_choice();
        let choice = match (wrapping, choice) {
            (Wrapping::Some_, Spec::Wrap { id, inner, .. }) => Spec::Wrap {
                w: W::Some_ { catch: false },
                id,
                inner,
            },
            (_, c) => c,
        };
        let n = branches_of(&choice).len();
        let choice_ix = fields.len();
        fields.push(choice);
        return Def {
            spec: OptSpec::plain(Spec::Seq(fields)),
            choice_ix,
            wrapping,
            n_branches: n,
            soft: false,
            commands: false,
        };
    }
    let n = p.rng.range(2, 4);
    let commands = !repeated && p.rng.chance(1, 5);
    // "soft" alternatives can succeed without consuming anything (switch, optional argument)
    let soft = !repeated && !commands && p.rng.chance(1, 4);
    let mut branches = Vec::new();
    for bi in 0..n {
        let b = if commands {
            p.command(0)
        } else if soft && (bi > 0 || p.rng.chance(1, 2)) {
            if p.rng.chance(1, 2) {
                Spec::Item(p.flag_item(Leaf::Switch))
            } else {
                let it = Spec::Item(p.arg_item());
                let id = p.id();
                Spec::wrap(W::Optional { catch: false }, id, it)
            }
        } else if repeated {
            if p.rng.chance(1, 4) {
                let a = p.simple_required_field();
                let b = p.simple_required_field();
                Spec::Seq(vec![a, b])
            } else {
                p.simple_required_field()
            }
        } else if p.rng.chance(1, 3) {
            let a = p.required_named_field();
            let b = p.named_field();
            Spec::Seq(vec![a, b])
        } else {
            p.required_named_field()
        };
        branches.push(b);
    }
    let alt = Spec::Alt(branches);
    let id = p.id();
    let choice = match wrapping {
        Wrapping::Bare => alt,
        Wrapping::Optional => Spec::wrap(W::Optional { catch: false }, id, alt),
        Wrapping::Fallback => Spec::wrap(W::Fallback, id, alt),
        Wrapping::Many => Spec::wrap(W::Many { catch: false }, id, alt),
        Wrapping::Some_ => Spec::wrap(W::Some_ { catch: false }, id, alt),
    };
    let choice_ix = fields.len();
    fields.push(choice);
    if !commands && p.rng.chance(1, 3) {
        fields.extend(p.positionals(2));
    }
    Def {
        spec: OptSpec::plain(Spec::Seq(fields)),
        choice_ix,
        wrapping,
        n_branches: n,
        soft,
        commands,
    }
}

fn branches_of(choice: &Spec) -> &[Spec] {
    match choice {
        Spec::Alt(xs) => xs,
        Spec::Wrap { inner, .. } => branches_of(inner),
        _ => &[],
    }
}

/// A choice between a subcommand and a flag: everything right of the command name belongs to the
/// command, so the flag typed behind it mixes the two alternatives and fails - also under `many`,
/// where `--fast build` is two values in that order
fn command_or_flag(case: &mut Case) {
    let mut rng = case.rng(9);
    let mut copts = OptSpec::plain(Spec::Seq(vec![Spec::Item(Item {
        id: 11,
        names: Names::long("release"),
        help: None,
        leaf: Leaf::Switch,
    })]));
    copts.descr = Some("D10-descr".into());
    let cmd = Spec::Cmd(Box::new(CmdSpec {
        id: 10,
        names: vec!["build".to_string()],
        shorts: vec![],
        help: None,
        adjacent: false,
        opts: copts,
    }));
    let flag = Spec::Item(Item {
        id: 20,
        names: Names::long("fast"),
        help: None,
        leaf: Leaf::ReqFlag,
    });
    let alts = if rng.chance(1, 2) {
        vec![cmd, flag]
    } else {
        vec![flag, cmd]
    };
    let wrap = rng.below(3);
    let alt = Spec::Alt(alts);
    let (choice, repeated) = match wrap {
        0 => (alt, false),
        1 => (Spec::wrap(W::Many { catch: false }, 30, alt), true),
        _ => (Spec::wrap(W::Some_ { catch: false }, 30, alt), true),
    };
    let b = Bench::new(case, OptSpec::plain(Spec::Seq(vec![choice])));
    let behind: Vec<Vec<u8>> = vec![b"build".to_vec(), b"--fast".to_vec()];
    b.expect_stderr(
        case,
        &behind,
        "mixed:flag-behind-command-name",
        "mixed-alternatives:flag-behind-command-name",
        "the flag of the other alternative written behind the command name",
    );
    let front: Vec<Vec<u8>> = vec![b"--fast".to_vec(), b"build".to_vec()];
    let (out, _) = b.run(case, &front, "flag-in-front-of-command-name");
    let ok = if repeated {
        // two values, the flag's first
        matches!(&out, crate::outcome::Outcome::Value(v) if {
            let s = v.show();
            match (s.find("f20"), s.find("f10")) {
                (Some(a), Some(c)) => a < c,
                _ => false,
            }
        })
    } else {
        matches!(out, crate::outcome::Outcome::Stderr { .. })
    };
    if !ok && !matches!(out, crate::outcome::Outcome::Panic(_) | crate::outcome::Outcome::FuelExhausted) {
        case.rep.violation(
            "alternative:flag-in-front-of-command-name",
            "alternative",
            case.index,
            b.detail(
                &front,
                "flag-in-front-of-command-name",
                if repeated {
                    "two values in command-line order"
                } else {
                    "Stderr (two alternatives of a bare choice)"
                },
                &out,
            ),
        );
    }
}

pub fn run_case(case: &mut Case) {
    if case.index % 24 == 13 {
        command_or_flag(case);
        return;
    }
    let mut rng = case.rng(0);
    let mut o = GenOpts::general();
    o.hidden = false;
    o.adjacent = false;
    o.alts = false;
    o.decor = false;
    let def = {
        let mut p = Pool::new(&mut rng, o);
        gen_def(&mut p)
    };
    let b = Bench::new(case, def.spec);
    let fields = match &b.spec.root {
        Spec::Seq(xs) => xs.clone(),
        _ => unreachable!(),
    };
    let kind = format!(
        "{:?}{}{}",
        def.wrapping,
        if def.soft { "+soft" } else { "" },
        if def.commands { "+commands" } else { "" }
    );
    case.rep.count(&format!("choice:{}:{}", kind, def.n_branches));

    let n_der = if case.thorough { 30 } else { 12 };
    for di in 0..n_der {
        // (1)/(3)/(4): one alternative per round, value known by construction
        let mut g = Gen::new(&mut rng);
        if let Some((d, _, line)) = sentence(
            &b.spec.root,
            &mut g,
            OrderStyle::Random,
            DashDash::IfNeeded,
            SpellStyle::Random,
        ) {
            let class = format!("single:{}", kind);
            b.expect_value(case, &line.argv, &d.value, &class, "alternative");
            // (1'): a flag of the line moved between the name of an argument and its value: the
            // name is left without a value, whoever owns the flag
            let names: Vec<usize> = (0..line.argv.len().saturating_sub(1))
                .filter(|&i| {
                    line.origin[i].role == Role::ArgName
                        && line.origin[i + 1].role == Role::ArgValue
                        && !line.origin[i].after_dd
                })
                .collect();
            let flags: Vec<usize> = (0..line.argv.len())
                .filter(|&i| {
                    line.origin[i].role == Role::Flag
                        && !line.origin[i].after_dd
                        && line.origin[i].block.is_none()
                })
                .collect();
            if !names.is_empty() && !flags.is_empty() {
                let ni = *rng.pick(&names);
                let fi = *rng.pick(&flags);
                if line.origin[ni].block.is_none() {
                    let mut argv = line.argv.clone();
                    let f = argv.remove(fi);
                    let at = if fi < ni { ni } else { ni + 1 };
                    argv.insert(at, f);
                    let class = format!("mixed:flag-between-name-and-value:{}", kind);
                    b.expect_stderr(
                        case,
                        &argv,
                        &class,
                        &format!("mixed-alternatives:flag-between-name-and-value:{}", kind),
                        "a flag written between the name of an argument and its value",
                    );
                }
            }
            if di == 0 {
                case.rep.sample(
                    case_json(&b.spec, &line.argv)
                        .set("class", class.as_str())
                        .set("denotes", d.value.show()),
                );
            }
        }
        // (2'): under repetition, a one-word alternative written inside the block of an adjacent
        // alternative mixes the two: the block is interrupted, the run fails
        if matches!(def.wrapping, Wrapping::Many | Wrapping::Some_) && !def.commands {
            let mut g = Gen::new(&mut rng);
            g.presence = 6;
            if let Some((_, units, _)) = sentence(
                &b.spec.root,
                &mut g,
                OrderStyle::Random,
                DashDash::IfNeeded,
                SpellStyle::Canonical,
            ) {
                let block: Vec<usize> = (0..units.len())
                    .filter(|i| units[*i].block.is_some() && units[*i].block == units.iter().find_map(|u| u.block))
                    .collect();
                // a flag of the choice outside any block (the choice's other alternatives are
                // single required flags)
                let choice_items = {
                    let mut v = Vec::new();
                    fields[def.choice_ix].level_items(&mut v);
                    v.iter().map(|i| i.id).collect::<Vec<_>>()
                };
                let other = (0..units.len()).find(|i| {
                    units[*i].block.is_none()
                        && matches!(&units[*i].kind, UKind::Flag { item, .. } if choice_items.contains(item))
                });
                if let (true, Some(oi)) = (block.len() >= 3, other) {
                    let mut m = units.clone();
                    let u = m.remove(oi);
                    // between the first and the last member of the block
                    let lo = block[0] - usize::from(oi < block[0]);
                    let at = lo + rng.range(1, block.len() - 1);
                    m.insert(at, u);
                    let line = render(&m, &mut rng, SpellStyle::Canonical);
                    let class = format!("mixed:inside-adjacent-block:{}", kind);
                    b.expect_stderr(
                        case,
                        &line.argv,
                        &class,
                        &format!("mixed-alternatives:inside-adjacent-block:{}", kind),
                        "a one-word alternative written inside the block of an adjacent alternative",
                    );
                }
            }
        }
        // (2): mix two alternatives of a non-repeated choice
        if matches!(def.wrapping, Wrapping::Many | Wrapping::Some_) || def.commands {
            continue;
        }
        let brs = branches_of(&fields[def.choice_ix]);
        if brs.len() < 2 {
            continue;
        }
        let i = rng.below(brs.len());
        let mut j = rng.below(brs.len() - 1);
        if j >= i {
            j += 1;
        }
        let mut g = Gen::new(&mut rng);
        let mut atoms = Vec::new();
        let mut ok = true;
        for (fi, f) in fields.iter().enumerate() {
            if fi == def.choice_ix {
                for bx in [i, j] {
                    match derive_present(&brs[bx], &mut g) {
                        Some(d) if !d.atoms.is_empty() => atoms.extend(d.atoms),
                        _ => ok = false,
                    }
                }
            } else {
                match derive(f, &mut g) {
                    Some(d) => atoms.extend(d.atoms),
                    None => ok = false,
                }
            }
        }
        if !ok {
            continue;
        }
        let units = match order_units(&atoms, &mut rng, OrderStyle::Random, DashDash::IfNeeded) {
            Some(u) => u,
            None => continue,
        };
        let line = render(&units, &mut rng, SpellStyle::Random);
        let class = format!("mixed:{}", kind);
        let r = b.expect_stderr(
            case,
            &line.argv,
            &class,
            &format!("mixed-alternatives:{}", kind),
            &format!("items of alternatives {} and {} on one line", i, j),
        );
        if di == 1 {
            if let Some(t) = r {
                case.rep.sample(
                    case_json(&b.spec, &line.argv)
                        .set("class", class.as_str())
                        .set("observed", format!("Stderr({:?})", t)),
                );
            }
        }
    }
}
