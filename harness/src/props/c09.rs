//! C09 - `--` ends option processing; strict positionals honour it.

use super::common::*;
use super::Case;
use crate::deriv::*;
use crate::gen::{GenOpts, Pool};
use crate::rng::Rng;
use crate::spec::*;

fn gen_def(p: &mut Pool) -> OptSpec {
    let mut fields = Vec::new();
    for _ in 0..p.rng.below(4) {
        fields.push(p.named_field());
    }
    if p.rng.chance(1, 6) {
        // either a subcommand or words (`construct!([run_cmd, files])`): the command parser
        // looks at the line first, a word right of `--` that is spelled like its name is data
        let cmd = p.command(0);
        let words = p.positionals(3);
        if words.is_empty() {
            fields.push(Spec::Alt(vec![cmd]));
        } else {
            fields.push(Spec::Alt(vec![cmd, Spec::Seq(words)]));
        }
    } else if p.rng.chance(1, 5) {
        // optional subcommand whose own level has the positionals
        let cmd = p.command(0);
        let a = Spec::Alt(vec![cmd]);
        let id = p.id();
        fields.push(Spec::wrap(W::Optional { catch: false }, id, a));
    } else if p.rng.chance(1, 8) {
        // `[LEGACY] -- REST...`: an optional or repeated word for the left side only (sometimes
        // hidden), then words for the right side only
        let left = Spec::Item(p.pos_item(Strict::NonStrict));
        let left = if p.rng.chance(1, 2) {
            let id = p.id();
            Spec::wrap(W::Hide, id, left)
        } else {
            left
        };
        let id = p.id();
        fields.push(match p.rng.below(3) {
            0 => Spec::wrap(W::Many { catch: false }, id, left),
            1 => Spec::wrap(W::Fallback, id, left),
            _ => Spec::wrap(W::Optional { catch: false }, id, left),
        });
        if p.rng.chance(1, 3) {
            let mid = Spec::Item(p.pos_item(Strict::Any));
            let id = p.id();
            fields.push(Spec::wrap(W::Optional { catch: false }, id, mid));
        }
        let right = Spec::Item(p.pos_item(Strict::Strict));
        let id = p.id();
        fields.push(match p.rng.below(3) {
            0 => Spec::wrap(W::Optional { catch: false }, id, right),
            _ => Spec::wrap(W::Many { catch: false }, id, right),
        });
    } else {
        fields.extend(p.positionals(3));
    }
    let mut o = OptSpec::plain(Spec::Seq(fields));
    // some definitions print their usage when they fail on a line with nothing on it; a word on
    // the wrong side of `--` is something, the failure is reported
    if p.rng.chance(1, 4) {
        o.fallback_to_usage = true;
    }
    o
}

/// words that look like options, separators, commands or help requests
fn hostile_word(a: &Alphabet, rng: &mut Rng, n: u32) -> Vec<u8> {
    let pick_name = |rng: &mut Rng, pool: &[Names]| -> Option<Vec<u8>> {
        if pool.is_empty() {
            return None;
        }
        let nm = rng.pick(pool);
        let k = rng.below(nm.shorts.len() + nm.longs.len());
        Some(if k < nm.shorts.len() {
            format!("-{}", nm.shorts[k]).into_bytes()
        } else {
            format!("--{}", nm.longs[k - nm.shorts.len()]).into_bytes()
        })
    };
    let w = match rng.below(10) {
        0 => Some(b"--".to_vec()),
        1 => Some(b"--help".to_vec()),
        2 => Some(b"-h".to_vec()),
        3 => pick_name(rng, &a.flags),
        4 => pick_name(rng, &a.args).map(|mut v| {
            v.extend_from_slice(b"=x");
            v
        }),
        5 if !a.cmds.is_empty() => Some(rng.pick(&a.cmds).clone().into_bytes()),
        6 => Some(format!("-x{}", n).into_bytes()),
        7 => Some(format!("--y{}", n).into_bytes()),
        8 => Some(b"-".to_vec()),
        _ => Some(format!("--version{}", n).into_bytes()),
    };
    w.unwrap_or_else(|| format!("-q{}", n).into_bytes())
}

fn strictness(spec: &OptSpec, id: Id) -> Strict {
    match spec.root.find_item(id).map(|i| &i.leaf) {
        Some(Leaf::Pos { strict, .. }) => *strict,
        _ => Strict::Any,
    }
}

/// `cargo_helper("pretty", ..)` (what `#[bpaf(options("pretty"))]` expands to): the cargo command
/// word is looked for in front of the line; data right of `--` spelled like it stays data
fn cargo_helper_and_separator(case: &mut Case) {
    let mut rng = case.rng(12);
    let v = Spec::Item(Item {
        id: 1,
        names: Names::short('v'),
        help: None,
        leaf: Leaf::Switch,
    });
    let files = Spec::wrap(
        W::Many { catch: false },
        3,
        Spec::Item(Item {
            id: 2,
            names: Names::default(),
            help: None,
            leaf: Leaf::Pos {
                ty: Ty::Str,
                metavar: "FILE".into(),
                strict: Strict::Any,
            },
        }),
    );
    let mut spec = OptSpec::plain(Spec::Seq(vec![v, files]));
    spec.cargo = Some("pretty".to_string());
    let b = Bench::new(case, spec);
    let to = |xs: &[&str]| -> Vec<Vec<u8>> { xs.iter().map(|x| x.as_bytes().to_vec()).collect() };
    // (argv, the words the positional must deliver, signature when it does not)
    let cases: Vec<(Vec<Vec<u8>>, Vec<&str>, &str)> = vec![
        (
            to(&["-v", "--", "a", "pretty"]),
            vec!["a", "pretty"],
            "separator:cargo-helper-drops-a-later-data-item",
        ),
        (
            to(&["pretty", "-v", "--", "pretty", "b"]),
            vec!["pretty", "b"],
            "separator:cargo-helper-drops-a-later-data-item",
        ),
        (
            to(&["--", "pretty", "a"]),
            vec!["pretty", "a"],
            "separator:cargo-helper-takes-the-first-data-item-for-the-command-word",
        ),
    ];
    let (argv, want, sig) = &cases[rng.below(cases.len())];
    let (out, _) = b.run(case, argv, "cargo-helper-and-separator");
    let ok = match &out {
        crate::outcome::Outcome::Value(v) => {
            let mut leaves = Vec::new();
            v.byte_leaves(&mut leaves);
            let got: Vec<String> = leaves
                .iter()
                .map(|l| String::from_utf8_lossy(l).to_string())
                .collect();
            got == want.iter().map(|w| w.to_string()).collect::<Vec<_>>()
        }
        crate::outcome::Outcome::Panic(_) | crate::outcome::Outcome::FuelExhausted => true,
        _ => false,
    };
    if !ok {
        case.rep.violation(
            sig,
            "separator",
            case.index,
            b.detail(
                argv,
                "cargo-helper-and-separator",
                &format!("the words {:?} delivered to FILE", want),
                &out,
            ),
        );
    }
}

pub fn run_case(case: &mut Case) {
    if case.index % 32 == 21 {
        cargo_helper_and_separator(case);
        return;
    }
    let mut rng = case.rng(0);
    let mut o = GenOpts::general();
    o.hidden = false;
    o.adjacent = false;
    o.alts = false;
    o.decor = false;
    o.strict = true;
    o.any_after_strict = true;
    o.hidden_positionals = true;
    o.types = vec![Ty::Str, Ty::Os, Ty::Str, Ty::U32, Ty::Path];
    let spec = {
        let mut p = Pool::new(&mut rng, o);
        gen_def(&mut p)
    };
    let b = Bench::new(case, spec);
    if b.spec.pretty().contains(".hide()") {
        case.rep.count("definitions-with-a-hidden-positional");
    }
    if b.spec.pretty().contains(".non_strict().hide()") {
        case.rep.count("definitions-with-a-hidden-non-strict-positional");
    }
    let n_der = if case.thorough { 30 } else { 12 };
    for di in 0..n_der {
        let mut g = Gen::new(&mut rng);
        g.presence = 6;
        let mut d = match derive(&b.spec.root, &mut g) {
            Some(d) => d,
            None => {
                case.rep.count("underivable");
                continue;
            }
        };
        let mut units = match order_units(&d.atoms, &mut rng, OrderStyle::Random, DashDash::Random)
        {
            Some(u) => u,
            None => {
                case.rep.count("unorderable");
                continue;
            }
        };
        // (a)/(d): words right of `--` become dash-looking data, delivered verbatim
        let mut hostile = 0;
        for (ui, u) in units.iter_mut().enumerate() {
            if !u.after_dd {
                continue;
            }
            if let UKind::Word { item, value } = &mut u.kind {
                let stringy = b
                    .spec
                    .root
                    .find_item(*item)
                    .and_then(Item::ty)
                    .map_or(false, |t| !t.is_num());
                if stringy && rng.chance(2, 3) {
                    let mut new = hostile_word(&b.alpha, &mut rng, ui as u32);
                    // keep tokens unique so attribution stays visible
                    if new != b"--" && new != b"-" && rng.chance(1, 2) {
                        new.extend_from_slice(format!("#{}", ui).as_bytes());
                    }
                    subst_bytes(&mut d.value, value, &new);
                    *value = new;
                    hostile += 1;
                }
            }
        }
        let has_dd = units.iter().any(|u| u.kind == UKind::DashDash);
        let line = render(&units, &mut rng, SpellStyle::Random);
        let class = if !has_dd {
            "sentence-without-separator"
        } else if hostile > 0 {
            "sentence-hostile-words-after-separator"
        } else {
            "sentence-with-separator"
        };
        case.rep.add("hostile_words", hostile);
        if has_dd && b.spec.pretty().contains(".non_strict().hide()") {
            case.rep.count("lines-with-separator-for-a-hidden-left-side-word");
        }
        if !b.expect_value(case, &line.argv, &d.value, class, "separator") {
            continue;
        }
        if di < 2 {
            case.rep.sample(
                case_json(&b.spec, &line.argv)
                    .set("class", class)
                    .set("denotes", d.value.show()),
            );
        }

        // (d') what stands right of `--` is data for the error reporting as well: a surplus item
        // there is never described as a misplaced flag, a misspelt name or a subcommand
        if !has_dd && di % 3 == 0 {
            let mut pool: Vec<Vec<u8>> = Vec::new();
            for n in b.alpha.flags.iter().chain(b.alpha.args.iter()) {
                for l in &n.longs {
                    pool.push(format!("--{}", l).into_bytes());
                }
                for c in &n.shorts {
                    pool.push(format!("--{}", c).into_bytes());
                }
            }
            for c in &b.alpha.cmds {
                pool.push(c.clone().into_bytes());
            }
            if !pool.is_empty() {
                let mut argv = line.argv.clone();
                argv.push(b"--".to_vec());
                argv.push(rng.pick(&pool).clone());
                let (out, _) = b.run(case, &argv, "surplus-name-like-item-right-of-separator");
                if let crate::outcome::Outcome::Stderr { text } = &out {
                    if text.contains("did you mean") {
                        case.rep.violation(
                            "separator:data-item-reported-as-a-name",
                            "separator",
                            case.index,
                            b.detail(
                                &argv,
                                "surplus-name-like-item-right-of-separator",
                                "a failure that treats the item as data (no `did you mean ..`)",
                                &out,
                            ),
                        );
                    }
                }
            }
        }
        // (e) completion right of `--`: only positional data can follow, no flag, argument or
        // command name is a candidate there
        if has_dd && !b.alpha.cmds.is_empty() || has_dd && rng.chance(1, 4) {
            let dd_ix = line.argv.iter().position(|a| a == b"--");
            if let Some(dd_ix) = dd_ix {
                let mut argv: Vec<Vec<u8>> = line.argv[..=dd_ix].to_vec();
                argv.push(Vec::new());
                let out = super::comp::complete(&b.parser, &argv, 0, None, fuel_for(&b.spec, &argv));
                case.rep.count("completions-right-of-separator");
                if let crate::outcome::Outcome::Completion(text) = &out {
                    let r = super::comp::parse_rev0(text);
                    for c in &r.items {
                        let is_cmd = b.alpha.cmds.iter().any(|n| *n == c.subst);
                        if is_cmd || (c.subst.starts_with('-') && c.subst.len() > 1) {
                            case.rep.violation(
                                if is_cmd {
                                    "completion-offers-command-right-of-separator"
                                } else {
                                    "completion-offers-name-right-of-separator"
                                },
                                "completion",
                                case.index,
                                case_json(&b.spec, &argv)
                                    .set("candidate", c.subst.as_str())
                                    .set("completion", crate::outcome::clip(text)),
                            );
                            break;
                        }
                    }
                }
            }
        }
        // (c) `--name --`: an argument name directly followed by the separator
        if let Some(at) = line.origin.iter().position(|o| o.role == Role::ArgName) {
            let mut argv = line.argv.clone();
            argv.insert(at + 1, b"--".to_vec());
            b.expect_stderr(
                case,
                &argv,
                "argument-name-then-separator",
                "name-then-separator",
                "argument expecting a value is followed by `--`",
            );
        }

        // (b) strictness: move the separator so that a strict word is on its left, or a
        // non-strict one on its right
        if has_dd {
            let dd_at = units.iter().position(|u| u.kind == UKind::DashDash).unwrap();
            let depth = units[dd_at].depth;
            let words: Vec<(usize, Strict)> = units
                .iter()
                .enumerate()
                .filter(|(_, u)| u.depth == depth)
                .filter_map(|(i, u)| match &u.kind {
                    UKind::Word { item, .. } => Some((i, strictness(&b.spec, *item))),
                    _ => None,
                })
                .collect();
            // strict word moved to the left of the separator
            if let Some((wi, _)) = words
                .iter()
                .find(|(i, s)| *s == Strict::Strict && *i > dd_at)
            {
                let mut m = units.clone();
                let dd = m.remove(dd_at);
                // after removal the word sits at wi-1; put the separator right after it
                m.insert(*wi, dd);
                for (k, u) in m.iter_mut().enumerate() {
                    if u.depth == depth {
                        u.after_dd = k > *wi;
                    }
                }
                // words that moved to the left must not look like options there
                // ... nor like a command name
                let dashy = m[dd_at..*wi].iter().any(|u| match &u.kind {
                    UKind::Word { value, .. } => {
                        value.starts_with(b"-")
                            || b.alpha.cmds.iter().any(|c| c.as_bytes() == value.as_slice())
                    }
                    _ => false,
                });
                // a word for the left side that repeats, or that is absent from the line, takes
                // the moved word: the line is a different sentence then
                // (only words declared in front of the strict one: it is asked before the later ones
                // and refuses the word for good)
                let strict_id = match &units[*wi].kind {
                    UKind::Word { item, .. } => *item,
                    _ => 0,
                };
                let left_open = {
                    let mut items = Vec::new();
                    b.spec.root.all_items(&mut items);
                    items.iter().any(|i| match &i.leaf {
                        Leaf::Pos { strict, .. } if *strict != Strict::Strict && i.id < strict_id => {
                            let repeats = b.spec.root.path_to(i.id).map_or(false, |p| {
                                p.iter().any(|e| matches!(e, PathEl::Wrap(w, _) if w.repeats()))
                            });
                            let on_line = units.iter().any(
                                |u| matches!(&u.kind, UKind::Word { item, .. } if *item == i.id),
                            );
                            repeats || !on_line
                        }
                        _ => false,
                    })
                };
                if left_open {
                    case.rep.count("skipped:left-side-word-takes-the-moved-strict-word");
                }
                if !dashy && !left_open {
                    let mline = render(&m, &mut rng, SpellStyle::Canonical);
                    b.expect_stderr(
                        case,
                        &mline.argv,
                        "strict-word-left-of-separator",
                        "strict-accepts-left-word",
                        "a strict positional only accepts items right of `--`",
                    );
                }
            }
            // non-strict word moved to the right of the separator: only conclusive when every
            // positional of the level is non-strict and required (nothing else may claim it)
            let lvl = level_at(&b.spec, &units, dd_at);
            let mut lvl_items = Vec::new();
            lvl.root.level_items(&mut lvl_items);
            let all_nonstrict = lvl_items.iter().filter(|i| i.is_pos()).all(|i| {
                matches!(
                    i.leaf,
                    Leaf::Pos {
                        strict: Strict::NonStrict,
                        ..
                    }
                )
            });
            if all_nonstrict && !words.is_empty() {
                let (wi, _) = words[words.len() - 1];
                if wi < dd_at {
                    let mut m = units.clone();
                    let dd = m.remove(dd_at);
                    m.insert(wi, dd);
                    for (k, u) in m.iter_mut().enumerate() {
                        if u.depth == depth {
                            u.after_dd = k > wi;
                        }
                    }
                    // named units that ended up right of the separator would be words: skip
                    let named_after = m.iter().enumerate().any(|(k, u)| {
                        k > wi
                            && u.depth == depth
                            && matches!(u.kind, UKind::Flag { .. } | UKind::Arg { .. })
                    });
                    if !named_after {
                        let mline = render(&m, &mut rng, SpellStyle::Canonical);
                        b.expect_stderr(
                            case,
                            &mline.argv,
                            "non-strict-word-right-of-separator",
                            "non-strict-accepts-right-word",
                            "a non_strict positional only accepts items left of `--`",
                        );
                    }
                }
            }
        }
    }
}
