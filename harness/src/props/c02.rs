//! C02 - equivalent spellings mean the same thing; values arrive byte-exact.
//!
//! Metamorphic monitor over pairs of real runs: the canonical spelling of a derivation versus
//! respellings of the same units in the same order. A failing respelling is decomposed into
//! single-chunk substitutions so that the violation is attributed to the one spelling that
//! changes the outcome (or reported as an interaction when no single substitution does).

use super::common::*;
use super::Case;
use crate::deriv::*;
use crate::gen::{gen_options, GenOpts};
use crate::json::show_argv;
use crate::outcome::Outcome;
use crate::spec::*;

/// the first WHOLE_UTF8 entries are valid UTF-8
const WHOLE_UTF8: usize = 21;
const WHOLE_VALUES: &[&[u8]] = &[
    // non-ASCII text in front of, around and after `=` (multi-byte characters next to the
    // byte-level split points of the tokenizer)
    b"\xc3\xb1=x",
    b"\xe5\x8f\xa3\xe6\xb0\xb4=\xe8\xbe\xa3",
    b"\xc3\xa9=",
    b"=\xc3\xa9",
    b"\xc3\xb1=x=y",
    b"x=\xc3\xb1",
    b"\xc3\xa9 \xc3\xa9",
    b"",
    b"=",
    b"a=b",
    b"==",
    b" ",
    b"a b",
    b"-x",
    b"--y",
    b"--",
    b"-",
    b"\xc3\xa9t\xc3\xa9",
    b"=x",
    b"-",
    b"x=",
    b"f\xff=",
    b"\xff\xfe",
    b"-\xff",
    b"=\xff",
];

pub fn opts() -> GenOpts {
    let mut o = GenOpts::general();
    o.cmd_depth = 1;
    o.max_named = 7;
    o
}

/// Structured facts about one substituted chunk, used as the violation signature. Each of the
/// three named facts is by itself sufficient for the tokenizer to mis-read the item, so the first
/// one that applies is the attribution; anything else gets a signature made of the spellings used.
fn chunk_features(units: &[U], c: &Chunk, spec: &OptSpec) -> String {
    let hidden = hidden_items(spec);
    let joined = c.spells.contains(&ArgSpell::ShortJoined);
    // 1. a short letter of a hidden item in a multi-letter item: hidden items contribute no
    //    metadata, so the tokenizer does not know the letter
    let multi_letter = c.cluster || joined;
    if multi_letter {
        for u in &units[c.lo..c.hi] {
            match &u.kind {
                UKind::Flag { item, .. } | UKind::Arg { item, .. } if hidden.contains(item) => {
                    return "hidden-short".to_string();
                }
                _ => {}
            }
        }
    }
    // 1b. a letter that is a flag in one command and an argument in another one: the tokenizer
    //     knows letters for the whole program, not per command
    if multi_letter {
        let amb = ambiguous_letters(spec);
        if !amb.is_empty() {
            for u in &units[c.lo..c.hi] {
                if let UKind::Flag { names, .. } | UKind::Arg { names, .. } = &u.kind {
                    if names.shorts.iter().any(|s| amb.contains(s)) {
                        return "cluster-letter-declared-differently-in-another-command".to_string();
                    }
                }
            }
        }
    }
    for u in &units[c.lo..c.hi] {
        if let UKind::Arg { value, .. } = &u.kind {
            // 2. `-nVALUE` with a value that is not valid UTF-8
            if joined && std::str::from_utf8(value).is_err() {
                return "short-joined-non-utf8-value".to_string();
            }
            // 3. cluster ending in a short argument whose attached value contains `=`
            if c.cluster && joined && value.contains(&b'=') {
                return "cluster-joined-value-contains-eq".to_string();
            }
        }
    }
    // 1c. the letter of the built-in help/version switch used for an argument of the user's own
    if multi_letter {
        let re = builtin_letters_reused(spec, false);
        if !re.is_empty() {
            for u in &units[c.lo..c.hi] {
                if let UKind::Flag { names, .. } | UKind::Arg { names, .. } = &u.kind {
                    if names.shorts.iter().any(|s| re.contains(s)) {
                        return "cluster-letter-of-builtin-switch-declared-as-argument".to_string();
                    }
                }
            }
        }
    }
    let mut f: Vec<String> = Vec::new();
    if c.cluster {
        f.push("cluster".into());
    }
    if c.items.first().map_or(false, |i| i.len() > 1 && i[0] == b'-' && i[1] >= 0x80) {
        f.push("non-ascii-short".into());
    }
    for sp in &c.spells {
        f.push(format!("{:?}", sp));
    }
    if f.is_empty() {
        f.push("name-alias".into());
    }
    f.sort_unstable();
    f.dedup();
    f.join("+")
}

pub fn hidden_items(spec: &OptSpec) -> Vec<Id> {
    fn go(s: &Spec, hidden: bool, out: &mut Vec<Id>) {
        match s {
            Spec::Item(i) => {
                if hidden {
                    out.push(i.id);
                }
            }
            Spec::Wrap { w, inner, .. } => go(inner, hidden || matches!(w, W::Hide), out),
            Spec::Seq(xs) | Spec::Alt(xs) | Spec::Adj(xs) => {
                for x in xs {
                    go(x, hidden, out);
                }
            }
            Spec::Cmd(c) => go(&c.opts.root, hidden, out),
            _ => {}
        }
    }
    let mut out = Vec::new();
    go(&spec.root, false, &mut out);
    out
}

fn same(a: &Outcome, b: &Outcome) -> bool {
    match (a, b) {
        // error texts legitimately quote the spelling that was used
        (Outcome::Stderr { .. }, Outcome::Stderr { .. }) => true,
        _ => a == b,
    }
}

/// Sibling commands commonly reuse a letter: make the first short flag of one command and the first
/// short argument of another one share their letter (names stay unique along every path)
pub fn share_a_letter_between_commands(spec: &mut OptSpec, rng: &mut crate::rng::Rng) -> bool {
    fn cmds_mut<'a>(s: &'a mut Spec, out: &mut Vec<&'a mut CmdSpec>) {
        match s {
            Spec::Cmd(c) => out.push(c),
            Spec::Wrap { inner, .. } => cmds_mut(inner, out),
            Spec::Seq(xs) | Spec::Alt(xs) | Spec::Adj(xs) => {
                for x in xs {
                    cmds_mut(x, out);
                }
            }
            _ => {}
        }
    }
    fn first_item_mut<'a>(s: &'a mut Spec, want_arg: bool) -> Option<&'a mut Item> {
        match s {
            Spec::Item(i) => {
                let ok = !i.names.shorts.is_empty()
                    && i.names.shorts[0].is_ascii()
                    && if want_arg { i.is_arg() } else { i.is_flag() };
                if ok {
                    Some(i)
                } else {
                    None
                }
            }
            // hidden items are F03's business
            Spec::Wrap { w: W::Hide, .. } => None,
            Spec::Wrap { inner, .. } => first_item_mut(inner, want_arg),
            Spec::Seq(xs) | Spec::Alt(xs) => {
                for x in xs {
                    if let Some(i) = first_item_mut(x, want_arg) {
                        return Some(i);
                    }
                }
                None
            }
            _ => None,
        }
    }
    let mut cmds = Vec::new();
    cmds_mut(&mut spec.root, &mut cmds);
    if cmds.len() < 2 {
        return false;
    }
    let a = rng.below(cmds.len());
    let mut b = rng.below(cmds.len() - 1);
    if b >= a {
        b += 1;
    }
    let letter = match first_item_mut(&mut cmds[a].opts.root, false) {
        Some(i) => i.names.shorts[0],
        None => return false,
    };
    match first_item_mut(&mut cmds[b].opts.root, true) {
        Some(i) => {
            i.names.shorts[0] = letter;
            true
        }
        None => false,
    }
}

/// `-h HOST`, `-V LEVEL`: a valued argument of the user's own that uses the letter of the built-in
/// help (or version) switch; the user's item is asked first, so `-h value` is a sentence
fn reuse_a_builtin_letter(spec: &mut OptSpec, rng: &mut crate::rng::Rng, flag: bool) -> bool {
    fn arg_mut<'a>(s: &'a mut Spec, flag: bool) -> Option<&'a mut Item> {
        match s {
            Spec::Item(i) => {
                let kind = if flag { i.is_flag() } else { i.is_arg() };
                if kind && !i.names.shorts.is_empty() && i.names.shorts[0].is_ascii() {
                    Some(i)
                } else {
                    None
                }
            }
            Spec::Wrap { w: W::Hide, .. } => None,
            Spec::Wrap { inner, .. } => arg_mut(inner, flag),
            Spec::Seq(xs) => {
                for x in xs {
                    if let Some(i) = arg_mut(x, flag) {
                        return Some(i);
                    }
                }
                None
            }
            _ => None,
        }
    }
    if spec.help_names.is_some() || spec.version_names.is_some() {
        return false;
    }
    // `ls -h`: a flag of the user's own shadows the help switch
    let letter = if flag || rng.chance(1, 2) { 'h' } else { 'V' };
    match arg_mut(&mut spec.root, flag) {
        Some(i) => {
            i.names.shorts[0] = letter;
            true
        }
        None => false,
    }
}

/// letters of the built-in switches that the definition declares as a valued argument
fn builtin_letters_reused(spec: &OptSpec, flags_too: bool) -> Vec<char> {
    let mut items = Vec::new();
    spec.root.all_items(&mut items);
    items
        .iter()
        .filter(|i| i.is_arg() || (flags_too && i.is_flag()))
        .flat_map(|i| i.names.shorts.iter().copied())
        .filter(|c| *c == 'h' || *c == 'V')
        .collect()
}

/// short letters declared as a flag at one place and as an argument at another
pub fn ambiguous_letters(spec: &OptSpec) -> Vec<char> {
    let mut items = Vec::new();
    spec.root.all_items(&mut items);
    let flags: Vec<char> = items
        .iter()
        .filter(|i| i.is_flag())
        .flat_map(|i| i.names.shorts.iter().copied())
        .collect();
    items
        .iter()
        .filter(|i| i.is_arg())
        .flat_map(|i| i.names.shorts.iter().copied())
        .filter(|c| flags.contains(c))
        .collect()
}

/// `construct!(--name N, P).many()`: the two spellings of the named occurrences, with the words
/// of the group written after them
fn word_inside_repeated_group(case: &mut Case) {
    let mk = |id: Id, names: Names, leaf: Leaf| {
        Spec::Item(Item {
            id,
            names,
            help: None,
            leaf,
        })
    };
    let root = Spec::Seq(vec![Spec::wrap(
        W::Many { catch: false },
        3,
        Spec::Seq(vec![
            mk(
                1,
                Names::long("name"),
                Leaf::Arg {
                    ty: Ty::Str,
                    metavar: "N".into(),
                    adjacent: false,
                },
            ),
            mk(
                2,
                Names::default(),
                Leaf::Pos {
                    ty: Ty::Str,
                    metavar: "P".into(),
                    strict: Strict::Any,
                },
            ),
        ]),
    )]);
    let b = Bench::new(case, OptSpec::plain(root));
    let to = |xs: &[&str]| -> Vec<Vec<u8>> { xs.iter().map(|x| x.as_bytes().to_vec()).collect() };
    let joined = to(&["--name=a", "--name=b", "x", "y"]);
    let detached = to(&["--name", "a", "--name", "b", "x", "y"]);
    let (o1, _) = b.run(case, &joined, "canonical");
    let (o2, _) = b.run(case, &detached, "respelled");
    case.rep.count("pairs");
    if !same(&o1, &o2) && !matches!(o2, Outcome::Panic(_) | Outcome::FuelExhausted) {
        case.rep.violation(
            "respell:word-inside-repeated-group",
            "respelling",
            case.index,
            b.detail(
                &detached,
                "respelled",
                &format!("the outcome of {}: {}", show_argv(&joined).render(), o1.show()),
                &o2,
            ),
        );
    }
}

/// `--color` / `--color=WHEN`: a switch and an `adjacent` argument that share their names (the
/// optional-value idiom). The argument accepts every spelling with name and value in one item,
/// wherever the bare switch stands.
fn switch_and_adjacent_argument_share_names(case: &mut Case) {
    let mut rng = case.rng(8);
    let names = Names {
        shorts: vec!['c'],
        longs: vec!["color".to_string()],
        envs: vec![],
    };
    let sw = Spec::Item(Item {
        id: 1,
        names: names.clone(),
        help: None,
        leaf: Leaf::Switch,
    });
    let arg = Spec::wrap(
        W::Optional { catch: false },
        3,
        Spec::Item(Item {
            id: 2,
            names,
            help: None,
            leaf: Leaf::Arg {
                ty: Ty::Str,
                metavar: "WHEN".into(),
                adjacent: true,
            },
        }),
    );
    // the argument is asked first, as the documentation of `adjacent` shows it
    let b = Bench::new(case, OptSpec::plain(Spec::Seq(vec![arg, sw])));
    let bare = *rng.pick(&["-c", "--color"]);
    // (`-calways` is refused as ambiguous by design: the letter is a flag and an argument)
    let attached = *rng.pick(&["-c=always", "--color=always"]);
    let lines: Vec<Vec<Vec<u8>>> = vec![
        vec![attached.as_bytes().to_vec()],
        vec![attached.as_bytes().to_vec(), bare.as_bytes().to_vec()],
        vec![bare.as_bytes().to_vec(), attached.as_bytes().to_vec()],
    ];
    let mut first: Option<Outcome> = None;
    for (k, argv) in lines.iter().enumerate() {
        let (o, _) = b.run(case, argv, "twin-switch-and-adjacent-argument");
        case.rep.count("pairs");
        let takes_value = matches!(&o, Outcome::Value(v) if v.show().contains("always"));
        if !takes_value && !matches!(o, Outcome::Panic(_) | Outcome::FuelExhausted) {
            case.rep.violation(
                "adjacent-argument-refuses-attached-value",
                "respelling",
                case.index,
                b.detail(
                    argv,
                    "twin-switch-and-adjacent-argument",
                    "a value in which the argument is `always`",
                    &o,
                ),
            );
        }
        if k == 0 {
            first = Some(o);
        }
    }
    let _ = first;
}

/// The help switch of a subcommand takes part in clusters like the flags of that subcommand,
/// also when its letter is not the one the top level uses: `fetch -K -h` / `fetch -Kh`
fn subcommand_help_letter_in_cluster(case: &mut Case) {
    let mut rng = case.rng(10);
    let sub_custom = rng.chance(1, 2);
    let mut copts = OptSpec::plain(Spec::Seq(vec![Spec::Item(Item {
        id: 11,
        names: Names::short('K'),
        help: None,
        leaf: Leaf::Switch,
    })]));
    copts.descr = Some("D10-descr".into());
    let mut root_help = None;
    let letter = if sub_custom {
        // the subcommand renames its help switch, the top level keeps `-h`
        copts.help_names = Some(Names {
            shorts: vec!['?'],
            longs: vec!["usage".to_string()],
            envs: vec![],
        });
        '?'
    } else {
        // the top level renames its help switch to a long name only, the subcommand keeps `-h`
        root_help = Some(Names::long("usage"));
        'h'
    };
    let cmd = Spec::Cmd(Box::new(CmdSpec {
        id: 10,
        names: vec!["fetch".to_string()],
        shorts: vec![],
        help: None,
        adjacent: false,
        opts: copts,
    }));
    let mut spec = OptSpec::plain(Spec::Seq(vec![cmd]));
    spec.help_names = root_help;
    let b = Bench::new(case, spec);
    let split = vec![
        b"fetch".to_vec(),
        b"-K".to_vec(),
        format!("-{}", letter).into_bytes(),
    ];
    let fused = vec![b"fetch".to_vec(), format!("-K{}", letter).into_bytes()];
    let (o_split, _) = b.run(case, &split, "builtin-switch-of-subcommand-next-to-flag");
    let (o_fused, _) = b.run(case, &fused, "builtin-switch-of-subcommand-in-cluster");
    case.rep.count("pairs");
    if o_split != o_fused && !matches!(o_fused, Outcome::Panic(_) | Outcome::FuelExhausted) {
        case.rep.violation(
            "respell:builtin-switch-of-subcommand-in-cluster",
            "respelling",
            case.index,
            b.detail(
                &fused,
                "builtin-switch-of-subcommand-in-cluster",
                &format!("the outcome of {}: {}", show_argv(&split).render(), o_split.show()),
                &o_fused,
            ),
        );
    }
}

pub fn run_case(case: &mut Case) {
    if case.index % 64 == 49 {
        subcommand_help_letter_in_cluster(case);
        return;
    }
    if case.index % 64 == 33 {
        word_inside_repeated_group(case);
        return;
    }
    if case.index % 64 == 17 {
        switch_and_adjacent_argument_share_names(case);
        return;
    }
    let mut rng = case.rng(0);
    let mut spec = gen_options(&mut rng, opts());
    if rng.chance(1, 4) && share_a_letter_between_commands(&mut spec, &mut rng) {
        case.rep.count("definitions-with-a-letter-shared-between-commands");
    }
    if rng.chance(1, 12) && reuse_a_builtin_letter(&mut spec, &mut rng, false) {
        case.rep.count("definitions-with-an-argument-named-like-a-builtin-switch");
    } else if rng.chance(1, 8) && reuse_a_builtin_letter(&mut spec, &mut rng, true) {
        case.rep.count("definitions-with-a-flag-named-like-the-help-switch");
    }
    let b = Bench::new(case, spec);
    let n_der = if case.thorough { 30 } else { 12 };
    for di in 0..n_der {
        let mut g = Gen::new(&mut rng);
        g.hostile = true;
        let d = match derive(&b.spec.root, &mut g) {
            Some(d) => d,
            None => {
                case.rep.count("underivable");
                return;
            }
        };
        let mut d = d;
        // whole-value payloads the statement names: empty, `=`, leading dashes, spaces,
        // non-ASCII, and invalid UTF-8 for OS-string/path targets
        {
            let mut items = Vec::new();
            b.spec.root.all_items(&mut items);
            let mut swaps: Vec<(Vec<u8>, Vec<u8>)> = Vec::new();
            let mut k = 0u32;
            for_each_value_mut(&mut d.atoms, &mut |id, is_arg, value| {
                let ty = items.iter().find(|i| i.id == id).and_then(|i| i.ty());
                let ty = match ty {
                    Some(t) if !t.is_num() => t,
                    _ => return,
                };
                if !is_arg || !rng.chance(1, 3) {
                    return;
                }
                k += 1;
                let pool: &[&[u8]] = if ty.is_bytes() {
                    WHOLE_VALUES
                } else {
                    &WHOLE_VALUES[..WHOLE_UTF8]
                };
                let mut new = rng.pick(pool).to_vec();
                // keep values distinguishable where the payload allows it
                if !new.is_empty() && rng.chance(1, 2) {
                    new.extend_from_slice(format!("#{}", k).as_bytes());
                }
                swaps.push((value.clone(), new.clone()));
                *value = new;
            });
            for (old, new) in swaps {
                subst_bytes(&mut d.value, &old, &new);
            }
        }
        let mut atoms = d.atoms.clone();
        // every third derivation is made invalid (a unit dropped or doubled) to cover failures
        let invalid = di % 3 == 2 && !atoms.is_empty();
        if invalid {
            let i = rng.below(atoms.len());
            if rng.chance(1, 2) {
                atoms.remove(i);
            } else {
                let a = atoms[i].clone();
                if !matches!(a, Atom::Cmd { .. }) {
                    atoms.push(a);
                }
            }
        }
        let units = match order_units(&atoms, &mut rng, OrderStyle::Random, DashDash::Random) {
            Some(u) => u,
            None => continue,
        };
        let canon = render_chunks(&units, &mut rng, SpellStyle::Canonical);
        let cline = assemble(&units, &canon);
        let (o_canon, _) = b.run(case, &cline.argv, "canonical");
        if !o_canon.is_value() && !builtin_letters_reused(&b.spec, true).is_empty() {
            // on a line that fails, a left-over `-h` / `-V` of the user's own argument is the
            // built-in switch and answers with help: only sentences are compared for this shape
            case.rep.count("skipped:failing-line-with-reused-builtin-letter");
            continue;
        }
        // the built-in switches take part in clusters like any declared flag: `-v -V` and `-vV`
        // mean the same
        if builtin_letters_reused(&b.spec, false).is_empty() {
            let user_flags = builtin_letters_reused(&b.spec, true);
            let hidden = hidden_items(&b.spec);
            let amb = ambiguous_letters(&b.spec);
            let mut builtin: Vec<u8> = Vec::new();
            if b.spec.help_names.is_none() && !user_flags.contains(&'h') {
                builtin.push(b'h');
            }
            if b.spec.version.is_some() && b.spec.version_names.is_none() && !user_flags.contains(&'V')
            {
                builtin.push(b'V');
            }
            for (ix, o) in cline.origin.iter().enumerate() {
                if builtin.is_empty() || o.role != Role::Flag || o.depth != 0 || o.after_dd {
                    continue;
                }
                let (names, item) = match &units[o.unit].kind {
                    UKind::Flag { names, item } => (names, *item),
                    _ => continue,
                };
                if hidden.contains(&item) {
                    continue;
                }
                let c = match names
                    .shorts
                    .iter()
                    .find(|c| c.is_ascii_alphanumeric() && !amb.contains(c))
                {
                    Some(c) => *c as u8,
                    None => continue,
                };
                let sw = *rng.pick(&builtin);
                let mut split = cline.argv.clone();
                split[ix] = vec![b'-', c];
                split.insert(ix + 1, vec![b'-', sw]);
                let mut fused = cline.argv.clone();
                fused[ix] = vec![b'-', c, sw];
                let (o_split, _) = b.run(case, &split, "builtin-switch-next-to-flag");
                if !matches!(o_split, Outcome::Stdout { .. }) {
                    continue;
                }
                let (o_fused, _) = b.run(case, &fused, "builtin-switch-in-cluster");
                if o_split != o_fused
                    && !matches!(o_fused, Outcome::Panic(_) | Outcome::FuelExhausted)
                {
                    case.rep.violation(
                        "respell:builtin-switch-in-cluster",
                        "respelling",
                        case.index,
                        b.detail(
                            &fused,
                            "builtin-switch-in-cluster",
                            &format!("the outcome of {}", show_argv(&split).render()),
                            &o_fused,
                        )
                        .set("split_outcome", o_split.show()),
                    );
                }
                break;
            }
        }
        // an `adjacent` argument takes its value from the same item only: the detached spelling of
        // an accepted line is not accepted
        if !invalid && o_canon.is_value() {
            for (ix, o) in cline.origin.iter().enumerate() {
                let adj_only = matches!(
                    &units[o.unit].kind,
                    UKind::Arg { adjacent_only: true, .. }
                );
                if !adj_only || o.role != Role::ArgJoined {
                    continue;
                }
                let item = &cline.argv[ix];
                let eq = match item.iter().position(|c| *c == b'=') {
                    Some(p) => p,
                    None => continue,
                };
                let (name, value) = (item[..eq].to_vec(), item[eq + 1..].to_vec());
                if value.is_empty() || value.starts_with(b"-") {
                    continue;
                }
                let mut argv = cline.argv.clone();
                argv[ix] = name;
                argv.insert(ix + 1, value);
                let (o_det, _) = b.run(case, &argv, "adjacent-argument-detached");
                case.rep.count("adjacent-detached-checked");
                if o_det.is_value() {
                    case.rep.violation(
                        "adjacent-argument-accepts-detached-value",
                        "adjacent-restriction",
                        case.index,
                        b.detail(
                            &argv,
                            "adjacent-argument-detached",
                            "a failure (the argument is restricted to `name=value` / `-nvalue`)",
                            &o_det,
                        ),
                    );
                }
            }
        }
        if !invalid {
            // byte-exactness: the value is what was written
            match &o_canon {
                Outcome::Value(v) if *v == d.value => {}
                Outcome::Panic(_) | Outcome::FuelExhausted => {}
                other => case.rep.violation(
                    &format!("canonical:{}", other.class()),
                    "byte-exact",
                    case.index,
                    b.detail(
                        &cline.argv,
                        "canonical",
                        &format!("Ok({})", d.value.show()),
                        other,
                    ),
                ),
            }
        }
        if di == 0 {
            case.rep.sample(
                case_json(&b.spec, &cline.argv)
                    .set("class", "canonical spelling")
                    .set("observed", o_canon.show()),
            );
        }
        for ri in 0..3 {
            let re = render_chunks(&units, &mut rng, SpellStyle::Random);
            let rline = assemble(&units, &re);
            if rline.argv == cline.argv {
                continue;
            }
            let (o_re, _) = b.run(case, &rline.argv, "respelled");
            for s in &rline.spells {
                case.rep.count(&format!("spell:{:?}", s));
            }
            case.rep.add("spell:clusters", rline.clusters as u64);
            case.rep.count("pairs");
            if di == 0 && ri == 0 {
                case.rep.sample(
                    case_json(&b.spec, &rline.argv)
                        .set("class", "respelling of the sample above")
                        .set("observed", o_re.show()),
                );
            }
            if same(&o_canon, &o_re) {
                continue;
            }
            // attribute: substitute one chunk at a time into the canonical line
            let mut attributed = false;
            for c in &re {
                let alone = substitute(&canon, c);
                let aline = assemble(&units, &alone);
                if aline.argv == cline.argv {
                    continue;
                }
                let (o_alone, _) = b.run(case, &aline.argv, "single-substitution");
                if !same(&o_canon, &o_alone) {
                    attributed = true;
                    let sig = format!("respell:{}", chunk_features(&units, c, &b.spec));
                    case.rep.violation(
                        &sig,
                        "respelling",
                        case.index,
                        case_json(&b.spec, &aline.argv)
                            .set("canonical_argv", show_argv(&cline.argv))
                            .set("substituted_items", show_argv(&c.items))
                            .set("canonical_outcome", o_canon.show())
                            .set("respelled_outcome", o_alone.show()),
                    );
                }
            }
            if !attributed {
                // no single spelling flips the outcome. Put the chunks that carry a feature which
                // by itself is sufficient to mis-read the item (the known findings) back into
                // their canonical spelling: if the rest of the respelling then agrees with the
                // canonical line, the divergence is theirs; otherwise it is an interaction.
                const SUFFICIENT: &[&str] = &[
                    "hidden-short",
                    "cluster-letter-declared-differently-in-another-command",
                    "short-joined-non-utf8-value",
                    "cluster-joined-value-contains-eq",
                ];
                let mut cleaned: Vec<Chunk> = Vec::new();
                let mut blamed: Vec<String> = Vec::new();
                for c in &re {
                    let f = chunk_features(&units, c, &b.spec);
                    if SUFFICIENT.contains(&f.as_str()) {
                        blamed.push(f);
                        cleaned.extend(
                            canon
                                .iter()
                                .filter(|k| k.lo >= c.lo && k.hi <= c.hi)
                                .cloned(),
                        );
                    } else {
                        cleaned.push(c.clone());
                    }
                }
                let mut explained = false;
                if !blamed.is_empty() {
                    let kline = assemble(&units, &cleaned);
                    let (o_clean, _) = b.run(case, &kline.argv, "respelled-without-known-spellings");
                    explained = same(&o_canon, &o_clean);
                }
                if explained {
                    blamed.sort();
                    blamed.dedup();
                    for f in blamed {
                        case.rep.violation(
                            &format!("respell:{}", f),
                            "respelling",
                            case.index,
                            case_json(&b.spec, &rline.argv)
                                .set("canonical_argv", show_argv(&cline.argv))
                                .set("canonical_outcome", o_canon.show())
                                .set("respelled_outcome", o_re.show())
                                .set("note", "combination of spellings; agrees once these chunks are spelled canonically"),
                        );
                    }
                } else {
                    case.rep.violation(
                        "respell:interaction",
                        "respelling",
                        case.index,
                        case_json(&b.spec, &rline.argv)
                            .set("canonical_argv", show_argv(&cline.argv))
                            .set("canonical_outcome", o_canon.show())
                            .set("respelled_outcome", o_re.show()),
                    );
                }
            }
        }
    }
}
