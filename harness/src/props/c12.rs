//! C12 - generated help documents exactly what the parser accepts.
//!
//! Output-protocol monitor: the `--help` screen of every command level, rendered unwrapped, is
//! tokenised (term lines, group lines, section headers) and compared with what the level
//! declares: every visible item present with its first names, metavariable and help; hidden
//! items, aliases and other levels' items absent; `hide_usage`/`custom_usage` leave the item
//! lists untouched; every shown name is accepted; description, usage, header, lists and footer
//! appear in that order.

use super::common::*;
use super::helpmodel::*;
use super::Case;
use crate::build::build_options;
use crate::deriv::*;
use crate::gen::{gen_options, GenOpts};
use crate::json::J;
use crate::outcome::{guarded, Outcome};
use crate::rng::Rng;
use crate::spec::*;
use bpaf::{Args, ParseFailure};

pub fn opts() -> GenOpts {
    let mut o = GenOpts::general();
    o.cmd_depth = 2;
    o.max_named = 6;
    o.twins = true;
    o.env = true;
    o.env_only = false;
    o.custom_help = true;
    o.pure_fail = true;
    // `construct!([named_only, cmd, words])`: an alternative that succeeds on nothing, listed
    // before the commands
    o.cmd_or_words = true;
    o
}

#[derive(Debug, Clone)]
struct TermLine {
    term: String,
    help: String,
}

struct Screen {
    text: String,
    terms: Vec<TermLine>,
    group_lines: Vec<String>,
}

thread_local! {
    /// the brief rendering (what a single `--help` prints) of the last screen
    static BRIEF: std::cell::RefCell<String> = std::cell::RefCell::new(String::new());
}

fn help_screen(parser: &bpaf::OptionParser<V>, help_item: &str) -> Result<String, Outcome> {
    let argv = vec![help_item.as_bytes().to_vec()];
    let os = crate::outcome::to_os(&argv);
    let (res, _) = guarded(RENDER_FUEL, || match parser.run_inner(Args::from(os.as_slice())) {
        Err(ParseFailure::Stdout(doc, _)) => {
            let brief = doc.monochrome(false);
            BRIEF.with(|b| *b.borrow_mut() = brief);
            Ok(format!("{:60000}", doc))
        }
        other => Err(crate::outcome::normalise(other).0),
    });
    match res {
        Ok(Ok(t)) => Ok(t),
        Ok(Err(o)) | Err(o) => Err(o),
    }
}

fn tokenize(text: &str) -> Screen {
    let mut terms = Vec::new();
    let mut group_lines = Vec::new();
    for line in text.lines() {
        let indent = line.len() - line.trim_start_matches(' ').len();
        let body = line.trim();
        if body.is_empty() {
            continue;
        }
        if indent == 4 || (indent == 8 && body.starts_with("--")) {
            // definition term [two or more spaces] help
            let (term, help) = match body.find("  ") {
                Some(p) => (body[..p].to_string(), body[p..].trim().to_string()),
                None => (body.to_string(), String::new()),
            };
            terms.push(TermLine { term, help });
        } else if indent == 2 {
            group_lines.push(body.to_string());
        }
    }
    Screen {
        text: text.to_string(),
        terms,
        group_lines,
    }
}

/// does `hay` contain `name` as a whole option token (not as a prefix of a longer name)
fn mentions_name(hay: &str, name: &str) -> bool {
    let mut from = 0;
    while let Some(p) = hay[from..].find(name) {
        let at = from + p;
        let end = at + name.len();
        let before_ok = at == 0
            || !hay[..at]
                .chars()
                .next_back()
                .map_or(false, |c| c.is_alphanumeric() || c == '-' || c == '_');
        let after_ok = hay[end..]
            .chars()
            .next()
            .map_or(true, |c| !(c.is_alphanumeric() || c == '-' || c == '_'));
        if before_ok && after_ok {
            return true;
        }
        from = end;
    }
    false
}

fn strip_usage_wrappers(s: &Spec) -> Spec {
    match s {
        Spec::Wrap { w, id, inner } => {
            let inner = strip_usage_wrappers(inner);
            match w {
                W::HideUsage | W::CustomUsage(_) => inner,
                _ => Spec::wrap(w.clone(), *id, inner),
            }
        }
        Spec::Seq(xs) => Spec::Seq(xs.iter().map(strip_usage_wrappers).collect()),
        Spec::Alt(xs) => Spec::Alt(xs.iter().map(strip_usage_wrappers).collect()),
        Spec::Adj(xs) => Spec::Adj(xs.iter().map(strip_usage_wrappers).collect()),
        Spec::Cmd(c) => {
            let mut c = (**c).clone();
            c.opts.root = strip_usage_wrappers(&c.opts.root);
            Spec::Cmd(Box::new(c))
        }
        other => other.clone(),
    }
}

fn has_usage_wrappers(s: &Spec) -> bool {
    match s {
        Spec::Wrap { w, inner, .. } => {
            matches!(w, W::HideUsage | W::CustomUsage(_)) || has_usage_wrappers(inner)
        }
        Spec::Seq(xs) | Spec::Alt(xs) | Spec::Adj(xs) => xs.iter().any(has_usage_wrappers),
        _ => false,
    }
}

/// try to produce a sentence of the level in which the item occurs, spelled with exactly `name`
fn sentence_with(
    level: &OptSpec,
    target: Id,
    name: &Names,
    rng: &mut Rng,
) -> Option<Vec<Vec<u8>>> {
    // `--color=WHEN | --color`: the bare spelling followed by a word is read as the argument, so
    // lines that use the flag twin of such a pair are not sentences one can rely on
    let mut items = Vec::new();
    level.root.all_items(&mut items);
    let flag_twins: Vec<Id> = items
        .iter()
        .filter(|i| i.is_flag())
        .filter(|i| {
            items.iter().any(|o| {
                o.is_arg()
                    && (o.names.shorts.iter().any(|c| i.names.shorts.contains(c))
                        || o.names.longs.iter().any(|l| i.names.longs.contains(l)))
            })
        })
        .map(|i| i.id)
        .collect();
    for _ in 0..12 {
        let mut g = Gen::new(rng);
        g.presence = 7;
        let d = derive(&level.root, &mut g)?;
        let mut units = order_units(&d.atoms, rng, OrderStyle::Canonical, DashDash::IfNeeded)?;
        if units
            .iter()
            .any(|u| matches!(&u.kind, UKind::Flag { item, .. } if flag_twins.contains(item)))
        {
            continue;
        }
        let mut found = false;
        for u in &mut units {
            if u.depth != 0 {
                continue;
            }
            match &mut u.kind {
                UKind::Flag { item, names } | UKind::Arg { item, names, .. } if *item == target => {
                    *names = name.clone();
                    found = true;
                }
                _ => {}
            }
        }
        if found {
            return Some(render(&units, rng, SpellStyle::Canonical).argv);
        }
    }
    None
}

pub fn run_case(case: &mut Case) {
    let mut rng = case.rng(0);
    let mut spec = gen_options(&mut rng, opts());
    // some help texts are built with the Doc API from several tokens, with a paragraph break in
    // a token that is not the last one (the first paragraph is what the item lists show)
    fn rich_help(s: &mut Spec, rng: &mut Rng) {
        match s {
            Spec::Item(i) => {
                if let Some(h) = &mut i.help {
                    if rng.chance(1, 6) {
                        *h = format!("{}\n\nsecond paragraph {{{{lit:x{}}}}} tail{}", h, i.id, i.id);
                    }
                }
            }
            Spec::Wrap { w, inner, .. } => {
                // a group title may be a text of several lines and paragraphs as well: the
                // members of the group and everything behind it are still listed
                if let W::GroupHelp(t) | W::WithGroupHelp(t) = w {
                    if rng.chance(1, 6) {
                        *t = format!("{}\nsecond line of the title\n\nsecond paragraph of the title", t);
                    }
                }
                rich_help(inner, rng)
            }
            Spec::Seq(xs) | Spec::Alt(xs) | Spec::Adj(xs) => {
                xs.iter_mut().for_each(|x| rich_help(x, rng))
            }
            Spec::Cmd(c) => rich_help(&mut c.opts.root, rng),
            _ => {}
        }
    }
    rich_help(&mut spec.root, &mut rng);
    let first_par = |h: &str| h.split("\n\n").next().unwrap_or("").to_string();
    let h = spec.hash64();
    case.rep.definition(h);
    case.say(&format!("definition: {}", spec.pretty()));
    let mut lv = Vec::new();
    levels(&spec, &mut Vec::new(), &mut lv);
    case.rep.max("levels_max", lv.len() as u64);

    let root_parser = build_options(&spec);
    for (path, level, _level_hidden) in lv {
        let parser = build_options(level);
        let hn = level.help_names();
        let help_item = hn
            .longs
            .first()
            .map(|l| format!("--{}", l))
            .or_else(|| hn.shorts.first().map(|s| format!("-{}", s)))
            .unwrap_or_else(|| "--help".to_string());
        let argv = vec![help_item.as_bytes().to_vec()];
        // in half of the screens the declared variables of the level's arguments are set, to a
        // value with an empty line in it (a PEM bundle, say): the help shows `[env:VAR = ..]`
        // and must list everything else all the same
        struct Unset(Vec<String>);
        impl Drop for Unset {
            fn drop(&mut self) {
                for v in &self.0 {
                    std::env::remove_var(v);
                }
            }
        }
        let mut set_vars: Vec<String> = Vec::new();
        if rng.chance(1, 2) {
            let mut items = Vec::new();
            level.root.level_items(&mut items);
            for it in items.iter().filter(|i| i.is_arg()) {
                for v in &it.names.envs {
                    std::env::set_var(v, "first line\n\nthird line");
                    set_vars.push(v.clone());
                }
            }
            if !set_vars.is_empty() {
                case.rep.count("help-screens-with-variables-set");
            }
        }
        // (stay set for every screen of this level, unset when the iteration ends)
        let unset_guard = Unset(set_vars);
        let text = match help_screen(&parser, &help_item) {
            Ok(t) => t,
            Err(o) => {
                case.rep.exec(h, &argv, 12, true);
                if matches!(o, Outcome::Panic(_) | Outcome::FuelExhausted) {
                    case.rep.violation(
                        &format!("help-abnormal:{}", o.class()),
                        "total",
                        case.index,
                        J::obj()
                            .set("level", level.pretty())
                            .set("observed", o.show()),
                    );
                } else {
                    case.rep.violation(
                        &format!("help-request-gives-{}", o.class()),
                        "help-screen",
                        case.index,
                        J::obj()
                            .set("level", level.pretty())
                            .set("observed", o.show()),
                    );
                }
                continue;
            }
        };
        case.rep.exec(h ^ crate::rng::fnv(path.join(" ").as_bytes()), &argv, 12, true);
        case.rep.count("help-screens");
        case.rep.count(&format!("depth:{}", path.len()));
        let screen = tokenize(&text);
        let view = level_view(level);
        // the same screen is what the user gets by asking from the top: `app cmd sub --help`
        if !path.is_empty() {
            let mut through: Vec<Vec<u8>> = path.iter().map(|p| p.as_bytes().to_vec()).collect();
            through.push(help_item.as_bytes().to_vec());
            let os = crate::outcome::to_os(&through);
            let (res, _) = guarded(RENDER_FUEL, || {
                match root_parser.run_inner(Args::from(os.as_slice())) {
                    Err(ParseFailure::Stdout(doc, _)) => Ok(format!("{:60000}", doc)),
                    other => Err(crate::outcome::normalise(other).0),
                }
            });
            match res {
                Ok(Ok(t)) => {
                    case.rep.count("help-screens-through-the-root");
                    let outer = tokenize(&t);
                    if let Some(missing) = screen
                        .terms
                        .iter()
                        .find(|l| !outer.terms.iter().any(|o| o.term == l.term))
                    {
                        case.rep.violation(
                            "help-through-parent-is-another-screen",
                            "completeness",
                            case.index,
                            J::obj()
                                .set("definition", spec.pretty())
                                .set("argv", crate::json::show_argv(&through))
                                .set(
                                    "problem",
                                    format!(
                                        "term {:?} of the level's own help screen is not on the screen printed for this line",
                                        missing.term
                                    ),
                                )
                                .set("help_text", crate::outcome::clip(&t))
                                .set("level_help_text", crate::outcome::clip(&text)),
                        );
                    }
                }
                // an enclosing level that is not satisfied answers first: C10's subject
                _ => case.rep.count("help-through-the-root:no-screen"),
            }
        }
        let detail = |problem: String| {
            J::obj()
                .set("level", level.pretty())
                .set("path", path.join(" "))
                .set("problem", problem)
                .set("help_text", crate::outcome::clip(&text))
        };

        // (a)(b) visible items are listed with names, metavariable and help
        for it in view.items.iter().filter(|i| !i.hidden) {
            if it.is_pos && it.help.is_none() {
                continue; // positionals without help are only part of the usage line
            }
            if !it.is_pos && it.short.is_none() && it.long.is_none() {
                continue;
            }
            let term = it.term();
            let line = screen.terms.iter().find(|t| t.term == term);
            case.rep.count("items-checked");
            match line {
                Some(l) => {
                    if let Some(hh) = &it.help {
                        let hh = &first_par(hh);
                        if !mentions_name(&l.help, hh.as_str()) {
                            case.rep.violation(
                                "item-help-missing",
                                "completeness",
                                case.index,
                                detail(format!("term {:?} lacks help {:?}", term, hh)),
                            );
                        }
                    }
                }
                None => {
                    // members of adjacent groups are shown on the group's own line and get a
                    // term line only when they carry help
                    let on_group_line = it.in_adjacent
                        && it.help.is_none()
                        && screen.group_lines.iter().any(|g| {
                            it.long
                                .as_ref()
                                .map_or(false, |l| mentions_name(g, &format!("--{}", l)))
                                || it.short.map_or(false, |s| mentions_name(g, &format!("-{}", s)))
                                || (it.is_pos
                                    && it.metavar.as_ref().map_or(false, |m| g.contains(m.as_str())))
                        });
                    if !on_group_line {
                        case.rep.violation(
                            &format!(
                                "visible-item-missing{}",
                                if it.in_adjacent { ":in-adjacent-group" } else { "" }
                            ),
                            "completeness",
                            case.index,
                            detail(format!("no term line {:?} for visible item {}", term, it.id)),
                        );
                    }
                }
            }
        }
        // (a') the brief form (single `--help`, wrapped at the default width) lists the same
        // items: every visible name and the help flag occur in it
        {
            let brief = BRIEF.with(|b| b.borrow().clone());
            let mut wanted: Vec<String> = Vec::new();
            for it in view.items.iter().filter(|i| !i.hidden && !i.is_pos && !i.in_adjacent) {
                if let Some(l) = &it.long {
                    wanted.push(format!("--{}", l));
                } else if let Some(c) = it.short {
                    wanted.push(format!("-{}", c));
                }
            }
            if let Some(l) = hn.longs.first() {
                wanted.push(format!("--{}", l));
            }
            for w in wanted {
                case.rep.count("brief-names-checked");
                if !mentions_name(&brief, &w) {
                    case.rep.violation(
                        "visible-item-missing:brief-help",
                        "completeness",
                        case.index,
                        detail(format!("{:?} does not occur in the brief help", w))
                            .set("brief_help", crate::outcome::clip(&brief)),
                    );
                    break;
                }
            }
        }
        // (c) subcommands
        for c in view.cmds.iter().filter(|c| !c.hidden) {
            case.rep.count("commands-checked");
            match screen.terms.iter().find(|t| t.term == c.term()) {
                Some(l) => {
                    if let Some(d) = &c.descr {
                        if !mentions_name(&l.help, d.as_str()) {
                            case.rep.violation(
                                "command-description-missing",
                                "completeness",
                                case.index,
                                detail(format!("command {:?} lacks description {:?}", c.name, d)),
                            );
                        }
                    }
                }
                None => case.rep.violation(
                    "visible-command-missing",
                    "completeness",
                    case.index,
                    detail(format!("no term line for command {:?}", c.term())),
                ),
            }
        }
        // (d) help / version flags
        let help_term = VisItem {
            id: 0,
            short: hn.shorts.first().copied(),
            long: hn.longs.first().cloned(),
            alias_shorts: vec![],
            alias_longs: vec![],
            metavar: None,
            help: None,
            is_arg: false,
            is_pos: false,
            in_adjacent: false,
            hidden: false,
        }
        .term();
        if !screen.terms.iter().any(|t| t.term == help_term) {
            case.rep.violation(
                "help-flag-not-listed",
                "completeness",
                case.index,
                detail(format!("help flag {:?} is not listed", help_term)),
            );
        }
        let vn = level.version_names();
        let version_term = VisItem {
            id: 0,
            short: vn.shorts.first().copied(),
            long: vn.longs.first().cloned(),
            alias_shorts: vec![],
            alias_longs: vec![],
            metavar: None,
            help: None,
            is_arg: false,
            is_pos: false,
            in_adjacent: false,
            hidden: false,
        }
        .term();
        let version_listed = screen.terms.iter().any(|t| t.term == version_term);
        if level.version.is_some() != version_listed {
            case.rep.violation(
                "version-flag-listing",
                "completeness",
                case.index,
                detail(format!(
                    "version configured: {}, listed: {}",
                    level.version.is_some(),
                    version_listed
                )),
            );
        }
        // (e) nothing else is listed
        for t in &screen.terms {
            let known = view.items.iter().any(|i| !i.hidden && i.term() == t.term)
                || view.cmds.iter().any(|c| !c.hidden && c.term() == t.term)
                || t.term == help_term
                || (level.version.is_some() && t.term == version_term);
            if !known {
                case.rep.violation(
                    "undeclared-term-listed",
                    "soundness",
                    case.index,
                    detail(format!("term {:?} is not a visible item of this level", t.term)),
                );
            }
        }
        // hidden items, aliases, and items of deeper levels never show up in the lists
        let listed: String = screen
            .terms
            .iter()
            .map(|t| t.term.clone())
            .chain(screen.group_lines.iter().cloned())
            .collect::<Vec<_>>()
            .join("\n");
        for it in &view.items {
            let mut banned: Vec<String> = Vec::new();
            if it.hidden {
                banned.extend(it.short.map(|s| format!("-{}", s)));
                banned.extend(it.long.as_ref().map(|l| format!("--{}", l)));
                if let Some(m) = &it.metavar {
                    banned.push(m.clone());
                }
            }
            banned.extend(it.alias_shorts.iter().map(|s| format!("-{}", s)));
            banned.extend(it.alias_longs.iter().map(|l| format!("--{}", l)));
            for name in banned {
                if mentions_name(&listed, &name) {
                    case.rep.violation(
                        if it.hidden {
                            "hidden-item-listed"
                        } else {
                            "alias-listed"
                        },
                        "soundness",
                        case.index,
                        detail(format!("{:?} of item {} appears in the item lists", name, it.id)),
                    );
                }
            }
            if it.hidden {
                if let Some(hh) = &it.help {
                    let hh = &first_par(hh);
                    if mentions_name(&text, hh.as_str()) {
                        case.rep.violation(
                            "hidden-item-listed",
                            "soundness",
                            case.index,
                            detail(format!("help {:?} of hidden item {} appears", hh, it.id)),
                        );
                    }
                }
            }
        }
        for c in &view.cmds {
            for a in &c.alias_names {
                if screen.terms.iter().any(|t| mentions_name(&t.term, a)) {
                    case.rep.violation(
                        "alias-listed",
                        "soundness",
                        case.index,
                        detail(format!("command alias {:?} is listed", a)),
                    );
                }
            }
        }
        // (h) order of description, usage, header, lists, footer
        let pos = |m: &Option<String>| m.as_ref().and_then(|m| text.find(m.as_str()));
        let usage_at = text.find("Usage");
        let first_list = text.find("Available ");
        let mut marks: Vec<(&str, Option<usize>)> = vec![
            ("description", pos(&level.descr)),
            ("usage", usage_at),
            ("header", pos(&level.header)),
            ("lists", first_list),
            ("footer", level.footer.as_ref().and_then(|f| text.rfind(f.as_str()))),
        ];
        if level.usage.is_some() {
            marks[1] = ("usage", pos(&level.usage));
        }
        for (name, declared) in [
            ("description", level.descr.is_some()),
            ("header", level.header.is_some()),
            ("footer", level.footer.is_some()),
        ] {
            let found = marks.iter().find(|m| m.0 == name).unwrap().1.is_some();
            if declared && !found {
                case.rep.violation(
                    &format!("{}-missing", name),
                    "layout",
                    case.index,
                    detail(format!("declared {} does not appear", name)),
                );
            }
        }
        let present: Vec<(&str, usize)> = marks
            .iter()
            .filter_map(|(n, p)| p.map(|p| (*n, p)))
            .collect();
        for w in present.windows(2) {
            if w[0].1 > w[1].1 {
                case.rep.violation(
                    "layout-order",
                    "layout",
                    case.index,
                    detail(format!("{} appears after {}", w[0].0, w[1].0)),
                );
            }
        }

        // (f) hide_usage / custom_usage change only the usage line
        if has_usage_wrappers(&level.root) {
            let mut plain = level.clone();
            plain.root = strip_usage_wrappers(&level.root);
            let p2 = build_options(&plain);
            if let Ok(t2) = help_screen(&p2, &help_item) {
                case.rep.count("usage-wrapper-pairs");
                let s2 = tokenize(&t2);
                let a: Vec<String> = screen
                    .terms
                    .iter()
                    .map(|t| format!("{}  {}", t.term, t.help))
                    .collect();
                let b: Vec<String> = s2
                    .terms
                    .iter()
                    .map(|t| format!("{}  {}", t.term, t.help))
                    .collect();
                if a != b {
                    case.rep.violation(
                        "usage-wrapper-changes-item-list",
                        "usage-only",
                        case.index,
                        detail("item lists differ with hide_usage/custom_usage removed".into())
                            .set("without_wrappers", crate::outcome::clip(&t2)),
                    );
                }
            }
        }

        // (the acceptance runs below are about the command line alone)
        drop(unset_guard);
        // (g) every shown name is accepted by the parser of that level
        for it in view.items.iter().filter(|i| !i.hidden && !i.is_pos) {
            let mut tests: Vec<Names> = Vec::new();
            if let Some(s) = it.short {
                tests.push(Names::short(s));
            }
            if let Some(l) = &it.long {
                tests.push(Names::long(l));
            }
            for n in tests {
                if !rng.chance(1, 2) {
                    continue;
                }
                let argv = match sentence_with(level, it.id, &n, &mut rng) {
                    Some(a) => a,
                    None => {
                        case.rep.count("shown-name:no-sentence-found");
                        continue;
                    }
                };
                let out = crate::outcome::run(&parser, &argv);
                case.rep.exec(h, &argv, 120, true);
                case.rep.count("shown-names-tried");
                if !out.is_value() {
                    case.rep.violation(
                        &format!("shown-name-rejected:{}", out.class()),
                        "accepted",
                        case.index,
                        detail(format!("name {:?} of item {} is shown", n.preferred(), it.id))
                            .set("argv", crate::json::show_argv(&argv))
                            .set("observed", out.show()),
                    );
                }
            }
        }
        if path.is_empty() {
            case.rep.sample(
                J::obj()
                    .set("level", crate::outcome::clip(&level.pretty()))
                    .set("help_text", crate::outcome::clip(&text))
                    .set(
                        "terms",
                        J::Arr(screen.terms.iter().map(|t| J::Str(t.term.clone())).collect()),
                    ),
            );
        }
    }
}
