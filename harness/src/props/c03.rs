//! C03 - order of named options is irrelevant.
//!
//! Metamorphic monitor over pairs of real runs: the same occurrences (same spelling) in two
//! orders that differ only by permuting whole named occurrences, keeping the relative order of
//! occurrences feeding the same field, of positionals, and staying on their side of command
//! names and `--`.

use super::common::*;
use super::Case;
use crate::deriv::*;
use crate::gen::{gen_options, GenOpts};
use crate::json::show_argv;
use crate::outcome::Outcome;
use crate::spec::*;

pub fn opts() -> GenOpts {
    let mut o = GenOpts::general();
    o.adjacent = false;
    o.cmd_depth = 2;
    o.max_named = 7;
    o
}

fn same(a: &Outcome, b: &Outcome) -> bool {
    match (a, b) {
        // the message may legitimately name a different item; only the class is compared
        (Outcome::Stderr { .. }, Outcome::Stderr { .. }) => true,
        _ => a == b,
    }
}

/// which sensitive placements the order contains (coverage accounting)
fn placements(units: &[U]) -> Vec<&'static str> {
    let mut out = Vec::new();
    let named = |u: &U| matches!(u.kind, UKind::Flag { .. } | UKind::Arg { .. });
    let word = |u: &U| matches!(u.kind, UKind::Word { .. });
    for w in units.windows(3) {
        if word(&w[0]) && named(&w[1]) && word(&w[2]) {
            out.push("named-between-positionals");
        }
    }
    for w in units.windows(2) {
        if word(&w[0]) && named(&w[1]) {
            out.push("named-after-positional");
        }
        if let (UKind::Arg { item: a, .. }, UKind::Arg { item: b, .. }) = (&w[0].kind, &w[1].kind)
        {
            if a != b {
                out.push("argument-after-other-argument");
            }
        }
    }
    out
}

/// Two shapes in which a named occurrence and a word compete for one slot. Every 16th case runs one
/// of them on a sentence and on the same occurrences with a named one moved.
///  (a) `construct!([--input IN, IN])` followed by `OUT`: the input is given by name or by position
///  (b) `construct!(--name N, P).many()`: a word inside a repeated group
fn named_and_word_compete(case: &mut Case) {
    let mut rng = case.rng(4);
    let mk = |id: Id, names: Names, leaf: Leaf| {
        Spec::Item(Item {
            id,
            names,
            help: None,
            leaf,
        })
    };
    let arg = |id: Id, l: &str| {
        mk(
            id,
            Names::long(l),
            Leaf::Arg {
                ty: Ty::Str,
                metavar: format!("M{}", id),
                adjacent: false,
            },
        )
    };
    let word = |id: Id| {
        mk(
            id,
            Names::default(),
            Leaf::Pos {
                ty: Ty::Str,
                metavar: format!("M{}", id),
                strict: Strict::Any,
            },
        )
    };
    let eq = rng.chance(1, 2);
    let name = |l: &str, v: &str| -> Vec<Vec<u8>> {
        if eq {
            vec![format!("--{}={}", l, v).into_bytes()]
        } else {
            vec![format!("--{}", l).into_bytes(), v.as_bytes().to_vec()]
        }
    };
    let (spec, base, moved, sig): (OptSpec, Vec<Vec<u8>>, Vec<Vec<u8>>, &str) = if rng.chance(1, 2) {
        let root = Spec::Seq(vec![Spec::Alt(vec![arg(1, "input"), word(2)]), word(3)]);
        let mut base = name("input", "a");
        base.push(b"b".to_vec());
        let mut moved = vec![b"b".to_vec()];
        moved.extend(name("input", "a"));
        (OptSpec::plain(root), base, moved, "order-matters:named-or-positional-choice")
    } else {
        let root = Spec::Seq(vec![Spec::wrap(
            W::Many { catch: false },
            3,
            Spec::Seq(vec![arg(1, "name"), word(2)]),
        )]);
        let mut base = name("name", "a");
        base.push(b"x".to_vec());
        base.extend(name("name", "b"));
        base.push(b"y".to_vec());
        let mut moved = name("name", "a");
        moved.extend(name("name", "b"));
        moved.push(b"x".to_vec());
        moved.push(b"y".to_vec());
        (OptSpec::plain(root), base, moved, "order-matters:word-inside-repeated-group")
    };
    let b = Bench::new(case, spec);
    let (o_base, _) = b.run(case, &base, "named-and-word-compete");
    let (o_moved, _) = b.run(case, &moved, "named-and-word-compete:moved");
    case.rep.count("pairs");
    let abnormal = |o: &Outcome| matches!(o, Outcome::Panic(_) | Outcome::FuelExhausted);
    if !same(&o_base, &o_moved) && !abnormal(&o_base) && !abnormal(&o_moved) {
        case.rep.violation(
            sig,
            "permutation",
            case.index,
            b.detail(
                &moved,
                "named-and-word-compete:moved",
                &format!("the outcome of {}: {}", show_argv(&base).render(), o_base.show()),
                &o_moved,
            ),
        );
    }
}

/// Alternatives that share named items: `construct!([{-v}, {-v, --name N}])` in either declaration
/// order, with one or two shared switches and an argument or a required flag as the extra member.
/// Every order of the occurrences on the line gives the same outcome.
fn alternatives_share_a_switch(case: &mut Case) {
    let mut rng = case.rng(5);
    let mk = |id: Id, names: Names, leaf: Leaf| {
        Spec::Item(Item {
            id,
            names,
            help: None,
            leaf,
        })
    };
    let shared = if rng.chance(1, 2) { 1 } else { 2 };
    let letters = ['v', 'q'];
    let mut simple = Vec::new();
    let mut full = Vec::new();
    for (k, c) in letters.iter().take(shared).enumerate() {
        simple.push(mk(1 + k as Id, Names::short(*c), Leaf::Switch));
        full.push(mk(11 + k as Id, Names::short(*c), Leaf::Switch));
    }
    let extra_is_arg = rng.chance(2, 3);
    let mut occurrences: Vec<Vec<Vec<u8>>> = Vec::new();
    if extra_is_arg {
        full.push(mk(
            20,
            Names::long("name"),
            Leaf::Arg {
                ty: Ty::Str,
                metavar: "NAME".into(),
                adjacent: false,
            },
        ));
        if rng.chance(1, 2) {
            occurrences.push(vec![b"--name=bob".to_vec()]);
        } else {
            occurrences.push(vec![b"--name".to_vec(), b"bob".to_vec()]);
        }
    } else {
        full.push(mk(20, Names::long("full"), Leaf::ReqFlag));
        occurrences.push(vec![b"--full".to_vec()]);
    }
    if rng.chance(1, 2) {
        full.rotate_right(1);
    }
    for c in letters.iter().take(shared) {
        if shared == 1 || rng.chance(3, 4) {
            occurrences.push(vec![format!("-{}", c).into_bytes()]);
        }
    }
    let branches = if rng.chance(1, 2) {
        vec![Spec::Seq(simple), Spec::Seq(full)]
    } else {
        vec![Spec::Seq(full), Spec::Seq(simple)]
    };
    let b = Bench::new(case, OptSpec::plain(Spec::Alt(branches)));
    // all orders of the occurrences (at most three of them)
    let n = occurrences.len();
    let mut orders: Vec<Vec<usize>> = vec![(0..n).collect()];
    let mut ix: Vec<usize> = (0..n).collect();
    for _ in 0..12 {
        rng.shuffle(&mut ix);
        if !orders.contains(&ix) {
            orders.push(ix.clone());
        }
    }
    let line = |o: &[usize]| -> Vec<Vec<u8>> {
        o.iter().flat_map(|&i| occurrences[i].iter().cloned()).collect()
    };
    let base = line(&orders[0]);
    let (o_base, _) = b.run(case, &base, "alternatives-share-a-switch");
    let abnormal = |o: &Outcome| matches!(o, Outcome::Panic(_) | Outcome::FuelExhausted);
    for o in &orders[1..] {
        let moved = line(o);
        let (o_moved, _) = b.run(case, &moved, "alternatives-share-a-switch:moved");
        case.rep.count("pairs");
        if !same(&o_base, &o_moved) && !abnormal(&o_base) && !abnormal(&o_moved) {
            case.rep.violation(
                "order-matters:alternatives-share-a-switch",
                "permutation",
                case.index,
                b.detail(
                    &moved,
                    "alternatives-share-a-switch:moved",
                    &format!("the outcome of {}: {}", show_argv(&base).render(), o_base.show()),
                    &o_moved,
                ),
            );
        }
    }
}

pub fn run_case(case: &mut Case) {
    if case.index % 16 == 9 {
        named_and_word_compete(case);
        return;
    }
    if case.index % 16 == 3 {
        alternatives_share_a_switch(case);
        return;
    }
    let mut rng = case.rng(0);
    let mut spec = gen_options(&mut rng, opts());
    if rng.chance(1, 4) && super::c02::share_a_letter_between_commands(&mut spec, &mut rng) {
        // sibling commands reuse a letter, as a switch in one and as an argument in the other
        case.rep.count("definitions-with-a-letter-shared-between-commands");
    }
    let b = Bench::new(case, spec);
    let n_der = if case.thorough { 24 } else { 10 };
    let n_perm = if case.thorough { 6 } else { 3 };
    for di in 0..n_der {
        let mut g = Gen::new(&mut rng);
        g.presence = 6;
        let d = match derive(&b.spec.root, &mut g) {
            Some(d) => d,
            None => {
                case.rep.count("underivable");
                return;
            }
        };
        let mut atoms = d.atoms.clone();
        let invalid = di % 3 == 2;
        if invalid {
            match rng.below(3) {
                0 if !atoms.is_empty() => {
                    let i = rng.below(atoms.len());
                    atoms.remove(i);
                }
                1 if !atoms.is_empty() => {
                    let i = rng.below(atoms.len());
                    let a = atoms[i].clone();
                    if !matches!(a, Atom::Cmd { .. }) {
                        atoms.push(a);
                    }
                }
                _ => atoms.push(Atom::Flag {
                    item: 0,
                    group: 999_999,
                    names: Names::long(FOREIGN_LONG),
                }),
            }
        }
        let base = match order_units(&atoms, &mut rng, OrderStyle::Canonical, DashDash::IfNeeded) {
            Some(u) => u,
            None => continue,
        };
        let bline = render(&base, &mut rng, SpellStyle::Canonical);
        let (o_base, _) = b.run(case, &bline.argv, "canonical-order");
        if !invalid {
            match &o_base {
                Outcome::Value(v) if *v == d.value => {}
                Outcome::Panic(_) | Outcome::FuelExhausted => {}
                other => case.rep.violation(
                    &format!("canonical-order:{}", other.class()),
                    "denotation",
                    case.index,
                    b.detail(
                        &bline.argv,
                        "canonical-order",
                        &format!("Ok({})", d.value.show()),
                        other,
                    ),
                ),
            }
        }
        if di == 0 {
            case.rep.sample(
                case_json(&b.spec, &bline.argv)
                    .set("class", "canonical order")
                    .set("observed", o_base.show()),
            );
        }
        // two neighbouring flags written as one cluster: `-ab` and `-ba` are the same two
        // occurrences in two orders
        {
            // (letters of hidden items are unknown to the tokenizer: F03, C02's business)
            let hidden = super::c02::hidden_items(&b.spec);
            let short_of = |ix: usize| -> Option<char> {
                let o = bline.origin.get(ix)?;
                if o.role != Role::Flag || o.after_dd || o.block.is_some() {
                    return None;
                }
                match &base[o.unit].kind {
                    UKind::Flag { item, .. } if hidden.contains(item) => None,
                    UKind::Flag { names, .. } => {
                        names.shorts.iter().copied().find(|c| c.is_ascii_alphanumeric())
                    }
                    _ => None,
                }
            };
            // occurrences that feed the same field keep their relative order
            fn groups(atoms: &[Atom], out: &mut Vec<(Id, u32)>) {
                for a in atoms {
                    match a {
                        Atom::Flag { item, group, .. } => out.push((*item, *group)),
                        Atom::Cmd { inner, .. } => groups(inner, out),
                        _ => {}
                    }
                }
            }
            let mut gs = Vec::new();
            groups(&atoms, &mut gs);
            let group_of = |ix: usize| -> Option<u32> {
                match &base[bline.origin[ix].unit].kind {
                    UKind::Flag { item, .. } => {
                        gs.iter().find(|(i, _)| i == item).map(|(_, g)| *g)
                    }
                    _ => None,
                }
            };
            for ix in 0..bline.argv.len().saturating_sub(1) {
                if short_of(ix).is_some()
                    && short_of(ix + 1).is_some()
                    && group_of(ix) == group_of(ix + 1)
                {
                    continue;
                }
                let (x, y) = match (short_of(ix), short_of(ix + 1)) {
                    (Some(x), Some(y)) if bline.origin[ix].depth == bline.origin[ix + 1].depth => {
                        (x, y)
                    }
                    _ => continue,
                };
                let mut xy = bline.argv.clone();
                xy[ix] = format!("-{}{}", x, y).into_bytes();
                xy.remove(ix + 1);
                let mut yx = xy.clone();
                yx[ix] = format!("-{}{}", y, x).into_bytes();
                let (o_xy, _) = b.run(case, &xy, "cluster-order");
                let (o_yx, _) = b.run(case, &yx, "cluster-order");
                case.rep.count("cluster-pairs");
                let abnormal = |o: &Outcome| matches!(o, Outcome::Panic(_) | Outcome::FuelExhausted);
                if !same(&o_xy, &o_yx) && !abnormal(&o_xy) && !abnormal(&o_yx) {
                    case.rep.violation(
                        "order-matters:inside-a-cluster",
                        "permutation",
                        case.index,
                        b.detail(
                            &yx,
                            "cluster-order",
                            &format!("the outcome of {}: {}", show_argv(&xy).render(), o_xy.show()),
                            &o_yx,
                        ),
                    );
                }
                break;
            }
        }
        // the help and the version flag are named flags of the level as well: which of the two
        // is written first does not matter
        if b.spec.version.is_some() {
            let first_cmd = bline
                .origin
                .iter()
                .position(|o| matches!(o.role, Role::CmdName | Role::DashDash))
                .unwrap_or(bline.argv.len());
            let i = rng.below(first_cmd + 1);
            let j = rng.range(i, first_cmd);
            let spell = |n: &Names, rng: &mut crate::rng::Rng| -> Vec<u8> {
                let k = rng.below(n.shorts.len() + n.longs.len());
                if k < n.shorts.len() {
                    format!("-{}", n.shorts[k]).into_bytes()
                } else {
                    format!("--{}", n.longs[k - n.shorts.len()]).into_bytes()
                }
            };
            let h = spell(&b.spec.help_names(), &mut rng);
            let v = spell(&b.spec.version_names(), &mut rng);
            // an item dropped between an argument name and its value changes the line itself
            let splits_arg = |at: usize| at > 0 && bline.origin[at - 1].role == Role::ArgName;
            if !splits_arg(i) && !splits_arg(j) {
                let mut a = bline.argv.clone();
                a.insert(i, h.clone());
                a.insert(j + 1, v.clone());
                let mut bb = bline.argv.clone();
                bb.insert(i, v);
                bb.insert(j + 1, h);
                let (oa, _) = b.run(case, &a, "help-then-version");
                let (ob, _) = b.run(case, &bb, "version-then-help");
                case.rep.count("help-version-pairs");
                if !same(&oa, &ob) {
                    case.rep.violation(
                        &format!("help-version-order:{}->{}", oa.class(), ob.class()),
                        "permutation",
                        case.index,
                        case_json(&b.spec, &bb)
                            .set("other_order_argv", show_argv(&a))
                            .set("other_order_outcome", oa.show())
                            .set("this_order_outcome", ob.show()),
                    );
                }
            }
        }
        for pi in 0..n_perm {
            let perm = match order_units(&atoms, &mut rng, OrderStyle::Random, DashDash::IfNeeded)
            {
                Some(u) => u,
                None => continue,
            };
            if perm == base {
                continue;
            }
            let pline = render(&perm, &mut rng, SpellStyle::Canonical);
            let (o_perm, _) = b.run(case, &pline.argv, "permuted");
            case.rep.count("pairs");
            for p in placements(&perm) {
                case.rep.count(&format!("placement:{}", p));
            }
            if di == 0 && pi == 0 {
                case.rep.sample(
                    case_json(&b.spec, &pline.argv)
                        .set("class", "permutation of the sample above")
                        .set("observed", o_perm.show()),
                );
            }
            if let (Outcome::Stderr { text: a }, Outcome::Stderr { text: b }) = (&o_base, &o_perm) {
                if a != b {
                    case.rep.count("stderr-text-differs(informational)");
                }
            }
            // the same two orders with one argument written `--name=` (an empty value attached):
            // still one occurrence, wherever it stands
            if pi == 0 && !invalid {
                let empty_eq = |line: &Line, units: &[U], want: &[u8]| -> Option<Vec<Vec<u8>>> {
                    for (ix, o) in line.origin.iter().enumerate() {
                        if o.role != Role::ArgName {
                            continue;
                        }
                        if let UKind::Arg { value, names, .. } = &units[o.unit].kind {
                            if value.as_slice() == want && ix + 1 < line.argv.len() {
                                let mut v = line.argv.clone();
                                v[ix] = match (names.longs.first(), names.shorts.first()) {
                                    (Some(l), _) => format!("--{}=", l).into_bytes(),
                                    (None, Some(c)) => format!("-{}=", c).into_bytes(),
                                    _ => return None,
                                };
                                v.remove(ix + 1);
                                return Some(v);
                            }
                        }
                    }
                    None
                };
                let pick = base.iter().find_map(|u| match &u.kind {
                    UKind::Arg { value, adjacent_only: false, .. } => Some(value.clone()),
                    _ => None,
                });
                if let Some(want) = pick {
                    if let (Some(b2), Some(p2)) =
                        (empty_eq(&bline, &base, &want), empty_eq(&pline, &perm, &want))
                    {
                        let (o1, _) = b.run(case, &b2, "empty-value-attached");
                        let (o2, _) = b.run(case, &p2, "empty-value-attached:permuted");
                        case.rep.count("pairs-with-an-empty-attached-value");
                        let abnormal =
                            |o: &Outcome| matches!(o, Outcome::Panic(_) | Outcome::FuelExhausted);
                        if !same(&o1, &o2) && !abnormal(&o1) && !abnormal(&o2) {
                            case.rep.violation(
                                &format!("permutation:empty-attached-value:{}->{}", o1.class(), o2.class()),
                                "permutation",
                                case.index,
                                case_json(&b.spec, &p2)
                                    .set("canonical_argv", show_argv(&b2))
                                    .set("canonical_outcome", o1.show())
                                    .set("permuted_outcome", o2.show()),
                            );
                        }
                    }
                }
            }
            if !same(&o_base, &o_perm) {
                let sig = format!(
                    "permutation:{}->{}{}",
                    o_base.class(),
                    o_perm.class(),
                    if invalid { ":invalid-line" } else { "" }
                );
                case.rep.violation(
                    &sig,
                    "permutation",
                    case.index,
                    case_json(&b.spec, &pline.argv)
                        .set("canonical_argv", show_argv(&bline.argv))
                        .set("canonical_outcome", o_base.show())
                        .set("permuted_outcome", o_perm.show()),
                );
            }
        }
    }
}
