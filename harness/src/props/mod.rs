//! Property monitors and the per-shard report they fill in.

use crate::json::J;
use std::collections::{BTreeMap, HashSet};

#[cfg(feature = "full")]
pub mod c01;
#[cfg(feature = "full")]
pub mod c02;
#[cfg(feature = "full")]
pub mod c03;
#[cfg(feature = "full")]
pub mod c04;
#[cfg(feature = "full")]
pub mod c05;
#[cfg(feature = "full")]
pub mod c06;
#[cfg(feature = "full")]
pub mod c07;
#[cfg(feature = "full")]
pub mod c08;
#[cfg(feature = "full")]
pub mod c09;
#[cfg(feature = "full")]
pub mod c10;
#[cfg(feature = "full")]
pub mod c11;
#[cfg(feature = "full")]
pub mod c12;
#[cfg(feature = "full")]
pub mod c13;
#[cfg(feature = "full")]
pub mod helpmodel;
#[cfg(feature = "full")]
pub mod c14;
#[cfg(feature = "full")]
pub mod c15;
#[cfg(feature = "full")]
pub mod c16;
#[cfg(feature = "full")]
pub mod comp;
#[cfg(feature = "full")]
pub mod c18;
#[cfg(feature = "full")]
pub mod c19;
#[cfg(feature = "full")]
pub mod common;

pub struct Violation {
    /// stable, specific description of *what kind* of failure this is; known findings are keyed
    /// on it
    pub signature: String,
    pub clause: String,
    pub case: u64,
    pub detail: J,
}

#[derive(Default)]
pub struct Report {
    pub evaluations: u64,
    pub hashes: HashSet<u64>,
    pub counters: BTreeMap<String, u64>,
    pub maxima: BTreeMap<String, u64>,
    pub samples: Vec<J>,
    pub violations: Vec<Violation>,
    pub violation_count: u64,
    pub by_signature: BTreeMap<String, u64>,
    pub inconclusive: BTreeMap<String, u64>,
    pub definitions: HashSet<u64>,
}

impl Report {
    pub fn count(&mut self, key: &str) {
        *self.counters.entry(key.to_string()).or_insert(0) += 1;
    }
    pub fn add(&mut self, key: &str, n: u64) {
        *self.counters.entry(key.to_string()).or_insert(0) += n;
    }
    pub fn max(&mut self, key: &str, v: u64) {
        let e = self.maxima.entry(key.to_string()).or_insert(0);
        if v > *e {
            *e = v;
        }
    }
    pub fn inconclusive(&mut self, why: &str) {
        *self.inconclusive.entry(why.to_string()).or_insert(0) += 1;
    }
    /// one execution of the real code that an oracle judged
    pub fn exec(&mut self, def_hash: u64, argv: &[Vec<u8>], mode: u64, nontrivial: bool) {
        self.evaluations += 1;
        if nontrivial {
            let mut h = crate::rng::mix(&[def_hash, mode, argv.len() as u64]);
            for a in argv {
                h = crate::rng::mix(&[h, crate::rng::fnv(a)]);
            }
            self.hashes.insert(h);
        }
    }
    pub fn definition(&mut self, def_hash: u64) {
        self.definitions.insert(def_hash);
    }
    pub fn sample(&mut self, j: J) {
        if self.samples.len() < 6 {
            self.samples.push(j);
        }
    }
    pub fn violation(&mut self, signature: &str, clause: &str, case: u64, detail: J) {
        self.violation_count += 1;
        *self.by_signature.entry(signature.to_string()).or_insert(0) += 1;
        // keep a few witnesses per signature
        let have = self
            .violations
            .iter()
            .filter(|v| v.signature == signature)
            .count();
        if have < 3 && self.violations.len() < 60 {
            self.violations.push(Violation {
                signature: signature.to_string(),
                clause: clause.to_string(),
                case,
                detail,
            });
        }
    }

    pub fn to_json(&self) -> J {
        let map = |m: &BTreeMap<String, u64>| {
            J::Obj(m.iter().map(|(k, v)| (k.clone(), J::from(*v))).collect())
        };
        J::obj()
            .set("evaluations", self.evaluations)
            .set("distinct", self.hashes.len())
            .set("definitions", self.definitions.len())
            .set("counters", map(&self.counters))
            .set("maxima", map(&self.maxima))
            .set("inconclusive", map(&self.inconclusive))
            .set("violation_count", self.violation_count)
            .set("by_signature", map(&self.by_signature))
            .set("samples", J::Arr(self.samples.clone()))
            .set(
                "violations",
                J::Arr(
                    self.violations
                        .iter()
                        .map(|v| {
                            J::obj()
                                .set("signature", &v.signature)
                                .set("clause", &v.clause)
                                .set("case", v.case)
                                .set("detail", v.detail.clone())
                        })
                        .collect(),
                ),
            )
    }
}

/// Everything a monitor needs to process one case
pub struct Case<'a> {
    pub prop: &'a str,
    pub seed: u64,
    pub index: u64,
    pub thorough: bool,
    pub verbose: bool,
    pub rep: &'a mut Report,
}

impl<'a> Case<'a> {
    pub fn rng(&self, stream: u64) -> crate::rng::Rng {
        crate::rng::Rng::for_case(self.seed, self.prop, self.index, stream)
    }
    pub fn say(&self, msg: &str) {
        if self.verbose {
            eprintln!("{}", msg);
        }
    }
}

/// Dispatch one case to its monitor
#[cfg(feature = "full")]
pub fn run_case(case: &mut Case) {
    match case.prop {
        "C01" => c01::run_case(case),
        "C02" => c02::run_case(case),
        "C03" => c03::run_case(case),
        "C04" => c04::run_case(case),
        "C05" => c05::run_case(case),
        "C06" => c06::run_case(case),
        "C07" => c07::run_case(case),
        "C08" => c08::run_case(case),
        "C09" => c09::run_case(case),
        "C10" => c10::run_case(case),
        "C11" => c11::run_case(case),
        "C12" => c12::run_case(case),
        "C13" => c13::run_case(case),
        "C14" => c14::run_case(case),
        "C15" => c15::run_case(case),
        "C16" => c16::run_case(case),
        "C18" => c18::run_case(case),
        "C19" => c19::run_case(case),
        p => panic!("unknown property {}", p),
    }
}

#[cfg(not(feature = "full"))]
pub fn run_case(_case: &mut Case) {
    panic!("this build variant only supports the C20 emitter");
}
