//! C11 - outcome classes map to streams and exit status (real process).
//!
//! The harness re-executes itself: the child rebuilds the same definition from coordinates in
//! an environment variable and calls the real `OptionParser::run()`; argv[0] is chosen freely and
//! the vector (non-UTF-8 allowed) is passed through the OS. The parent predicts stdout, stderr
//! and exit status from `run_inner` and compares byte for byte.

use super::common::*;
use super::Case;
use crate::child::{CHILD_ENV, SENTINEL};
use crate::deriv::*;
use crate::gen::{gen_options, GenOpts};
use crate::json::show_bytes;
use crate::outcome::{guarded, to_os};
use crate::rng::Rng;
use crate::spec::*;
use bpaf::{Args, ParseFailure};
use std::ffi::OsString;
use std::os::unix::ffi::OsStringExt;
use std::os::unix::process::CommandExt;

pub fn gen_spec(rng: &mut Rng) -> OptSpec {
    let mut o = GenOpts::general();
    o.custom_help = true;
    o.cmd_depth = 1;
    o.max_named = 5;
    o.completers = true;
    o.usage_fallback = true;
    let mut spec = gen_options(rng, o);
    // a non-default width only changes where text wraps; keep it predictable for short help
    if rng.chance(1, 4) {
        spec.max_width = Some(*rng.pick(&[40usize, 60, 100, 132]));
    }
    spec
}

struct Predicted {
    status: i32,
    stdout: Vec<u8>,
    stderr: Vec<u8>,
    class: &'static str,
}

fn predict(
    b: &Bench,
    argv: &[Vec<u8>],
    name: Option<&str>,
) -> Result<Option<Predicted>, crate::outcome::Outcome> {
    let os = to_os(argv);
    let width = b.spec.max_width.unwrap_or(100);
    let (res, _) = guarded(fuel_for(&b.spec, argv), || {
        let mut args = Args::from(os.as_slice());
        if let Some(n) = name {
            args = args.set_name(n);
        }
        match b.parser.run_inner(args) {
            Ok(v) => Some(Predicted {
                status: 0,
                stdout: format!("{} {}\n", SENTINEL, v.show()).into_bytes(),
                stderr: Vec::new(),
                class: "value",
            }),
            Err(ParseFailure::Stdout(doc, full)) => {
                // print_message renders at max_width; only the full rendering at another width
                // is reachable through the public Display impl
                let text = if width == 100 {
                    doc.monochrome(full)
                } else if full {
                    format!("{:width$}", doc, width = width)
                } else {
                    return None;
                };
                Some(Predicted {
                    status: 0,
                    stdout: format!("{}\n", text).into_bytes(),
                    stderr: Vec::new(),
                    class: "stdout",
                })
            }
            Err(ParseFailure::Stderr(doc)) => {
                let text = format!("{:width$}", doc, width = width);
                Some(Predicted {
                    status: 1,
                    stdout: Vec::new(),
                    stderr: format!("Error: {}\n", text).into_bytes(),
                    class: if text.trim().is_empty() {
                        "stderr-empty-message"
                    } else {
                        "stderr"
                    },
                })
            }
            Err(ParseFailure::Completion(s)) => Some(Predicted {
                status: 0,
                stdout: s.into_bytes(),
                stderr: Vec::new(),
                class: "completion",
            }),
        }
    });
    res
}

pub fn run_case(case: &mut Case) {
    let mut rng = case.rng(0);
    let spec = gen_spec(&mut rng);
    let mut rng = case.rng(1);
    let b = Bench::new(case, spec);
    let exe = match std::env::current_exe() {
        Ok(e) => e,
        Err(_) => {
            case.rep.inconclusive("no-current-exe");
            return;
        }
    };
    let n_vec = if case.thorough { 40 } else { 16 };
    for vi in 0..n_vec {
        // a sentence with one numeric value made unconvertible is a parse failure for certain
        let mut sure_failure = false;
        let mut argv: Vec<Vec<u8>> = match vi % 4 {
            1 if vi % 8 == 1 => {
                let mut g = Gen::new(&mut rng);
                match sentence(
                    &b.spec.root,
                    &mut g,
                    OrderStyle::Random,
                    DashDash::IfNeeded,
                    SpellStyle::Canonical,
                ) {
                    Some((_, mut units, l)) => {
                        let numeric: Vec<usize> = (0..units.len())
                            .filter(|i| match &units[*i].kind {
                                UKind::Arg { item, .. } | UKind::Word { item, .. } => b
                                    .spec
                                    .root
                                    .find_item(*item)
                                    .and_then(Item::ty)
                                    .map_or(false, |t| t.is_num()),
                                _ => false,
                            })
                            .collect();
                        if numeric.is_empty() {
                            l.argv
                        } else {
                            let at = *rng.pick(&numeric);
                            if let UKind::Arg { value, .. } | UKind::Word { value, .. } =
                                &mut units[at].kind
                            {
                                // (an echoed item may contain an empty line)
                                *value = if rng.chance(1, 3) {
                                    b"1\n\n2".to_vec()
                                } else {
                                    b"12x".to_vec()
                                };
                            }
                            sure_failure = true;
                            render(&units, &mut rng, SpellStyle::Canonical).argv
                        }
                    }
                    None => Vec::new(),
                }
            }
            0 | 1 => {
                let mut g = Gen::new(&mut rng);
                g.hostile = vi % 4 == 1;
                match sentence(
                    &b.spec.root,
                    &mut g,
                    OrderStyle::Random,
                    DashDash::Random,
                    SpellStyle::Random,
                ) {
                    Some((_, _, l)) => l.argv,
                    None => Vec::new(),
                }
            }
            _ => {
                let mut v = noise_vector(&b.alpha, &mut rng, 8);
                if rng.chance(1, 6) {
                    let at = rng.below(v.len() + 1);
                    v.insert(at, b"first\n\nsecond".to_vec());
                }
                v
            }
        };
        // the OS cannot pass NUL bytes
        for a in &mut argv {
            a.retain(|c| *c != 0);
        }
        // help / version / completion requests
        match rng.below(8) {
            _ if sure_failure => {}
            0 => {
                let at = rng.below(argv.len() + 1);
                let n = b.spec.help_names();
                let item = match (n.longs.first(), n.shorts.first()) {
                    (Some(l), _) if rng.chance(1, 2) => format!("--{}", l),
                    (_, Some(s)) => format!("-{}", s),
                    (Some(l), None) => format!("--{}", l),
                    _ => "--help".to_string(),
                };
                argv.insert(at, item.into_bytes());
            }
            1 => argv.insert(0, b"--version".to_vec()),
            2 => {
                let rev = *rng.pick(&[0usize, 1, 7, 8, 9]);
                argv.insert(0, format!("--bpaf-complete-rev={}", rev).into_bytes());
                if argv.len() == 1 || rng.chance(1, 2) {
                    argv.push(Vec::new());
                }
            }
            _ => {}
        }
        // --bpaf-complete-style-* prints a static stub and exits by design: not predicted here
        if argv.iter().any(|a| a.starts_with(b"--bpaf-complete-style")) {
            continue;
        }
        // ... but it is completion output all the same: stdout, status 0, nothing on stderr and
        // the body is not reached, whatever else is on the line
        if vi == 1 && case.index % 4 == 2 {
            let style = *rng.pick(&["bash", "zsh", "fish", "elvish"]);
            let mut sargv = argv.clone();
            sargv.retain(|a| !a.starts_with(b"--bpaf-complete-rev"));
            let at = rng.below(sargv.len() + 1);
            sargv.insert(at, format!("--bpaf-complete-style-{}", style).into_bytes());
            let dd = sargv.iter().position(|a| a == b"--");
            if dd.map_or(true, |d| at <= d) {
                let mut cmd = std::process::Command::new(&exe);
                cmd.arg0("my-tool");
                cmd.env_clear();
                cmd.env(
                    CHILD_ENV,
                    format!("{}:{}:{}:run", case.prop, case.seed, case.index),
                );
                for a in &sargv {
                    cmd.arg(OsString::from_vec(a.clone()));
                }
                if let Ok(out) = cmd.output() {
                    case.rep.count("class:completion-script-request");
                    let status = out.status.code().unwrap_or(-1);
                    let body = String::from_utf8_lossy(&out.stdout).contains(crate::child::SENTINEL);
                    let problem = if status != 0 {
                        Some("status")
                    } else if !out.stderr.is_empty() {
                        Some("stderr")
                    } else if out.stdout.is_empty() {
                        Some("no-output")
                    } else if body {
                        Some("body-reached")
                    } else {
                        None
                    };
                    if let Some(what) = problem {
                        case.rep.violation(
                            &format!("completion-script-request:{}", what),
                            "process-boundary",
                            case.index,
                            case_json(&b.spec, &sargv)
                                .set("argv0", "my-tool")
                                .set("expected", "the completion script on stdout, status 0, empty stderr, body not reached")
                                .set("child_status", i64::from(status))
                                .set("child_stdout", show_bytes(&out.stdout[..out.stdout.len().min(300)]))
                                .set("child_stderr", show_bytes(&out.stderr[..out.stderr.len().min(300)])),
                        );
                    }
                }
            }
        }
        // program name: plain, a path, non-ASCII, or a file name that is not UTF-8
        let (arg0, name): (Vec<u8>, Option<String>) = match rng.below(9) {
            5 => (b"prog.v2".to_vec(), Some("prog.v2".into())),
            6 => (b"/opt/tools/seeded.prog".to_vec(), Some("seeded.prog".into())),
            7 => (b"./.hidden".to_vec(), Some(".hidden".into())),
            8 => (b"/x/a.b.c".to_vec(), Some("a.b.c".into())),
            0 => (b"app".to_vec(), Some("app".into())),
            1 => (b"/usr/local/bin/my-tool".to_vec(), Some("my-tool".into())),
            2 => (b"./rel/path/x y".to_vec(), Some("x y".into())),
            3 => ("/opt/\u{e9}t\u{e9}".as_bytes().to_vec(), Some("\u{e9}t\u{e9}".into())),
            _ => (b"/bin/bad\xffname".to_vec(), None),
        };

        let pred = match predict(&b, &argv, name.as_deref()) {
            Ok(Some(p)) => p,
            Ok(None) => {
                case.rep.inconclusive("short-help-at-custom-width");
                continue;
            }
            Err(o) => {
                // a panic in run_inner is C04's business; nothing to compare against - but the
                // real process still has to end in one of its three ways, not with a crash
                case.rep.inconclusive(&format!("prediction-{}", o.class()));
                let mut cmd = std::process::Command::new(&exe);
                cmd.arg0(OsString::from_vec(arg0.clone()));
                cmd.env_clear();
                cmd.env(
                    CHILD_ENV,
                    format!("{}:{}:{}:run", case.prop, case.seed, case.index),
                );
                for a in &argv {
                    cmd.arg(OsString::from_vec(a.clone()));
                }
                if let Ok(out) = cmd.output() {
                    let status = out.status.code().unwrap_or(-1);
                    if status != 0 && status != 1 {
                        case.rep.violation(
                            "process-abnormal-exit",
                            "process-boundary",
                            case.index,
                            case_json(&b.spec, &argv)
                                .set("argv0", show_bytes(&arg0))
                                .set("expected", "status 0 or 1")
                                .set("child_status", i64::from(status))
                                .set("child_stderr", show_bytes(&out.stderr[..out.stderr.len().min(300)])),
                        );
                    }
                }
                continue;
            }
        };

        let mut cmd = std::process::Command::new(&exe);
        cmd.arg0(OsString::from_vec(arg0.clone()));
        cmd.env_clear();
        cmd.env(
            CHILD_ENV,
            format!("{}:{}:{}:run", case.prop, case.seed, case.index),
        );
        for a in &argv {
            cmd.arg(OsString::from_vec(a.clone()));
        }
        let out = match cmd.output() {
            Ok(o) => o,
            Err(_) => {
                case.rep.inconclusive("spawn-failed");
                continue;
            }
        };
        case.rep.exec(b.h, &argv, 11, !argv.is_empty());
        case.rep.count(&format!("class:{}", pred.class));
        case.rep.count(&format!(
            "argv0:{}",
            if name.is_some() { "utf8" } else { "non-utf8" }
        ));
        let status = out.status.code().unwrap_or(-1);
        let same = status == pred.status && out.stdout == pred.stdout && out.stderr == pred.stderr;
        if vi == 0 {
            case.rep.sample(
                case_json(&b.spec, &argv)
                    .set("argv0", show_bytes(&arg0))
                    .set("predicted_class", pred.class)
                    .set("child_status", i64::from(status))
                    .set("child_stdout", show_bytes(&out.stdout[..out.stdout.len().min(300)]))
                    .set("child_stderr", show_bytes(&out.stderr[..out.stderr.len().min(300)]))
                    .set("verdict", if same { "held" } else { "violated" }),
            );
        }
        if sure_failure {
            case.rep.count("class:sure-failure-lines");
            if !pred.class.starts_with("stderr") || status != 1 {
                case.rep.violation(
                    &format!("parse-failure-not-on-stderr:{}", pred.class),
                    "failure-class",
                    case.index,
                    case_json(&b.spec, &argv)
                        .set("argv0", show_bytes(&arg0))
                        .set("expected", "stderr, status 1 (a numeric value was replaced by `12x`)")
                        .set("child_status", i64::from(status))
                        .set("child_stdout", show_bytes(&out.stdout[..out.stdout.len().min(300)]))
                        .set("child_stderr", show_bytes(&out.stderr[..out.stderr.len().min(300)])),
                );
            }
        }
        if pred.class == "stderr-empty-message" {
            case.rep.violation(
                "empty-failure-message",
                "non-empty-message",
                case.index,
                case_json(&b.spec, &argv).set("argv0", show_bytes(&arg0)),
            );
        }
        if !same {
            let what = if status != pred.status {
                "status"
            } else if out.stdout != pred.stdout {
                "stdout"
            } else {
                "stderr"
            };
            case.rep.violation(
                &format!("process-differs:{}:{}", pred.class, what),
                "process-boundary",
                case.index,
                case_json(&b.spec, &argv)
                    .set("argv0", show_bytes(&arg0))
                    .set("predicted_status", i64::from(pred.status))
                    .set("predicted_stdout", show_bytes(&pred.stdout))
                    .set("predicted_stderr", show_bytes(&pred.stderr))
                    .set("child_status", i64::from(status))
                    .set("child_stdout", show_bytes(&out.stdout))
                    .set("child_stderr", show_bytes(&out.stderr)),
            );
        }
    }
}
