//! C05 - every command-line item is used exactly once or the run fails.
//!
//! (i) derivation-directed insertion: into an accepted line insert one foreign/duplicated item
//!     at every boundary -> must be an stderr failure;
//! (ii) conservation: an accepted line yields exactly the value it denotes (every token once,
//!     attributed to its item);
//! (iii) hooks (in `Bench::run`): a value is returned only when the outermost accept event shows
//!     every item of the vector consumed, and the cached count never disagrees with the ledger.

use super::common::*;
use super::Case;
use crate::deriv::*;
use crate::gen::{gen_options, GenOpts};
use crate::outcome::Outcome;
use crate::rng::Rng;
use crate::spec::*;

pub fn opts() -> GenOpts {
    let mut o = GenOpts::general();
    o.cmd_depth = 2;
    o.adjacent_cmds = true;
    o.cmd_or_words = true;
    o
}

/// how often may this item occur on a line
fn single_use(spec: &Spec, id: Id) -> Option<bool> {
    fn go(s: &Spec, id: Id, repeated: bool) -> Option<bool> {
        match s {
            Spec::Item(i) => (i.id == id).then_some(!repeated),
            Spec::Wrap { w, inner, .. } => go(inner, id, repeated || w.repeats()),
            Spec::Seq(xs) | Spec::Alt(xs) | Spec::Adj(xs) => {
                xs.iter().find_map(|x| go(x, id, repeated))
            }
            // a chain of adjacent commands may name the same command again with its own block
            Spec::Cmd(c) => go(&c.opts.root, id, c.adjacent && repeated),
            _ => None,
        }
    }
    go(spec, id, false)
}

/// can the level (at this depth of the line) still take a surplus word
fn level_takes_more_words(spec: &Spec) -> bool {
    fn go(s: &Spec, rep: bool) -> bool {
        match s {
            Spec::Item(i) => i.is_pos() && rep,
            Spec::Wrap { w, inner, .. } => go(inner, rep || w.repeats()),
            Spec::Seq(xs) | Spec::Alt(xs) | Spec::Adj(xs) => xs.iter().any(|x| go(x, rep)),
            _ => false,
        }
    }
    go(spec, false)
}

fn has_pos_or_cmd(spec: &Spec) -> bool {
    let mut items = Vec::new();
    spec.level_items(&mut items);
    let mut cmds = Vec::new();
    spec.level_cmds(&mut cmds);
    items.iter().any(|i| i.is_pos()) || !cmds.is_empty()
}

struct Insertion {
    argv: Vec<Vec<u8>>,
    kind: &'static str,
}

fn insertions(b: &Bench, units: &[U], line: &Line, rng: &mut Rng, thorough: bool) -> Vec<Insertion> {
    let mut out = Vec::new();
    let bounds = boundaries_before_dd(line);
    for &at in &bounds {
        if !thorough && bounds.len() > 6 && !rng.chance(6, bounds.len()) {
            continue;
        }
        // an undeclared name
        let m = insert_foreign(line, at, rng);
        out.push(Insertion {
            argv: m.argv,
            kind: m.kind,
        });
        // a surplus word where the active level has no room for words at all
        let unit_ix = line.origin.get(at).map_or(units.len(), |o| o.unit);
        let lvl = level_at(&b.spec, units, unit_ix);
        let inside_block = at > 0
            && at < line.argv.len()
            && line.origin[at].block.is_some()
            && line.origin[at].block == line.origin[at - 1].block;
        let after_arg_name = at > 0 && line.origin[at - 1].role == Role::ArgName;
        if !has_pos_or_cmd(&lvl.root)
            && !level_takes_more_words(&lvl.root)
            && !inside_block
            && !after_arg_name
        {
            let mut argv = line.argv.clone();
            argv.insert(at, b"surplusword".to_vec());
            out.push(Insertion {
                argv,
                kind: "surplus-word",
            });
        }
    }
    // duplicate a single-use named occurrence / attach a value to a flag
    for (ix, o) in line.origin.iter().enumerate() {
        if o.after_dd {
            continue;
        }
        let u = &units[o.unit];
        match (&u.kind, o.role) {
            (UKind::Flag { item, .. }, Role::Flag) => {
                if rng.chance(1, 2) {
                    let mut argv = line.argv.clone();
                    argv[ix].extend_from_slice(b"=junk");
                    out.push(Insertion {
                        argv,
                        kind: "flag-with-value",
                    });
                }
                if single_use(&b.spec.root, *item) == Some(true) && u.block.is_none() {
                    let mut argv = line.argv.clone();
                    let at = *rng.pick(&bounds);
                    argv.insert(at, line.argv[ix].clone());
                    // a duplicate dropped between an argument name and its value breaks the
                    // argument instead - still a failure, keep it
                    out.push(Insertion {
                        argv,
                        kind: "duplicate-flag",
                    });
                }
            }
            (UKind::Arg { item, .. }, Role::ArgJoined) => {
                if single_use(&b.spec.root, *item) == Some(true) && u.block.is_none() {
                    let mut argv = line.argv.clone();
                    let at = *rng.pick(&bounds);
                    argv.insert(at, line.argv[ix].clone());
                    out.push(Insertion {
                        argv,
                        kind: "duplicate-argument",
                    });
                }
            }
            _ => {}
        }
    }
    out
}

pub fn run_case(case: &mut Case) {
    let mut rng = case.rng(0);
    let spec = gen_options(&mut rng, opts());
    let b = Bench::new(case, spec);
    let n_der = if case.thorough { 16 } else { 6 };
    // multi-letter short items with hidden members are C02's known finding F03
    let hidden = super::c02::hidden_items(&b.spec);
    for di in 0..n_der {
        let mut g = Gen::new(&mut rng);
        let (d, units, line) = match sentence_cfg(
            &b.spec.root,
            &mut g,
            OrderStyle::Random,
            DashDash::Random,
            SpellStyle::Random,
            &hidden,
        ) {
            Some(x) => x,
            None => {
                case.rep.count("underivable");
                continue;
            }
        };
        // (ii) conservation / attribution on the accepted line
        if !b.expect_value(case, &line.argv, &d.value, "accepted-line", "conservation") {
            continue;
        }
        if di == 0 {
            case.rep.sample(
                case_json(&b.spec, &line.argv)
                    .set("class", "accepted line")
                    .set("denotes", d.value.show()),
            );
        }
        // (i') a group (sequence of fields under optional / fallback / fallback_with / many) of
        // which only the first required member is given: the member is used by nobody
        if let Spec::Seq(fields) = &b.spec.root {
            for f in fields {
                let (inner, wname) = match f {
                    Spec::Wrap { w, inner, .. }
                        if matches!(
                            w,
                            W::Optional { .. } | W::Fallback | W::FallbackWithOk | W::Many { .. }
                        ) =>
                    {
                        (&**inner, format!("{:?}", w))
                    }
                    _ => continue,
                };
                let members = match inner {
                    Spec::Seq(ms) if ms.len() >= 2 => ms,
                    _ => continue,
                };
                let required: Vec<&Spec> = members
                    .iter()
                    .filter(|m| absent_value(m).is_none())
                    .collect();
                if required.len() < 2 {
                    continue;
                }
                // only when the accepted line does not use the group at all
                let mut ids = Vec::new();
                inner.level_items(&mut ids);
                let used = units.iter().any(|u| match &u.kind {
                    UKind::Flag { item, .. } | UKind::Arg { item, .. } => {
                        ids.iter().any(|i| i.id == *item)
                    }
                    _ => false,
                });
                if used {
                    continue;
                }
                let mut g = Gen::new(&mut rng);
                let part = match derive_present(required[0], &mut g) {
                    Some(p) => p,
                    None => continue,
                };
                let mut atoms = d.atoms.clone();
                atoms.extend(part.atoms);
                let punits =
                    match order_units(&atoms, &mut rng, OrderStyle::Random, DashDash::IfNeeded) {
                        Some(u) => u,
                        None => continue,
                    };
                let pline = render_cfg(&punits, &mut rng, SpellStyle::Random, &hidden);
                let wkind = wname.split(|c: char| !c.is_alphanumeric()).next().unwrap_or("");
                let class = format!("partial-group:{}", wkind);
                b.expect_stderr(
                    case,
                    &pline.argv,
                    &class,
                    &format!("partial-group-accepted:{}", wkind),
                    "only the first required member of a group is given",
                );
            }
        }
        // (i'') a cluster of a declared flag letter and an undeclared one is an ordinary word:
        // whatever the outcome, nothing else of the line may get lost (hook oracles in `run`)
        {
            let mut shorts: Vec<char> = b
                .alpha
                .flags
                .iter()
                .flat_map(|n| n.shorts.iter().copied())
                .collect();
            shorts.sort_by_key(|c| std::cmp::Reverse(c.len_utf8()));
            if let Some(&c) = shorts.first() {
                let c = if rng.chance(1, 3) { *rng.pick(&shorts) } else { c };
                let bounds = boundaries_before_dd(&line);
                let at = *rng.pick(&bounds);
                let mut argv = line.argv.clone();
                argv.insert(at, format!("-{}{}", c, FOREIGN_SHORT).into_bytes());
                let (out, _) = b.run(case, &argv, "insert:cluster-with-undeclared-letter");
                if let crate::outcome::Outcome::Value(v) = &out {
                    // accepted: the word went to a positional, everything else is as before
                    let mut leaves = Vec::new();
                    v.byte_leaves(&mut leaves);
                    let mut before = Vec::new();
                    d.value.byte_leaves(&mut before);
                    // (`last()` keeps one of several occurrences by design)
                    let has_last = b.spec.pretty().contains(".last()");
                    if !has_last && before.iter().any(|t| !leaves.contains(t)) {
                        case.rep.violation(
                            "insert:cluster-with-undeclared-letter:value-lost",
                            "conservation",
                            case.index,
                            b.detail(
                                &argv,
                                "insert:cluster-with-undeclared-letter",
                                "every value of the accepted line still delivered",
                                &out,
                            ),
                        );
                    }
                }
            }
        }
        // (i) insertions
        for ins in insertions(&b, &units, &line, &mut rng, case.thorough) {
            let class = format!("insert:{}", ins.kind);
            let r = b.expect_stderr(
                case,
                &ins.argv,
                &class,
                &format!("insert:{}:accepted-as", ins.kind),
                "one item more than the accepted line",
            );
            if di == 0 && r.is_some() {
                case.rep.sample(
                    case_json(&b.spec, &ins.argv)
                        .set("class", class.as_str())
                        .set("observed", format!("Stderr({:?})", r.unwrap_or_default())),
                );
            }
        }
        // (ii) another name of a command written right behind the command name is a word like
        // any other: it is delivered (or refused) exactly like an unrelated word in its place
        for (ix, o) in line.origin.iter().enumerate() {
            if o.role != Role::CmdName || o.after_dd {
                continue;
            }
            let names = match &units[o.unit].kind {
                UKind::CmdName { names, .. } if names.len() > 1 => names.clone(),
                _ => continue,
            };
            let typed = String::from_utf8_lossy(&line.argv[ix]).to_string();
            let other = match names.iter().find(|n| **n != typed) {
                Some(n) => n.clone(),
                None => continue,
            };
            let neutral = b"zzneutralword".to_vec();
            let mut with_alias = line.argv.clone();
            with_alias.insert(ix + 1, other.clone().into_bytes());
            let mut with_word = line.argv.clone();
            with_word.insert(ix + 1, neutral.clone());
            let (o_alias, _) = b.run(case, &with_alias, "insert:command-alias-behind-command-name");
            let (o_word, _) = b.run(case, &with_word, "insert:word-behind-command-name");
            let abnormal = |o: &Outcome| matches!(o, Outcome::Panic(_) | Outcome::FuelExhausted);
            if abnormal(&o_alias) || abnormal(&o_word) {
                continue;
            }
            let agree = match (&o_alias, &o_word) {
                (Outcome::Value(a), Outcome::Value(w)) => {
                    let mut w = w.clone();
                    subst_bytes(&mut w, &neutral, other.as_bytes());
                    *a == w
                }
                (Outcome::Stderr { .. }, Outcome::Stderr { .. }) => true,
                (a, w) => a == w,
            };
            if !agree {
                case.rep.violation(
                    "insert:command-alias-behind-command-name:differs-from-a-word",
                    "conservation",
                    case.index,
                    b.detail(
                        &with_alias,
                        "insert:command-alias-behind-command-name",
                        &format!(
                            "what an unrelated word in that place gives ({}): {}",
                            crate::json::show_argv(&with_word).render(),
                            o_word.show()
                        ),
                        &o_alias,
                    ),
                );
            }
            break;
        }
        // (iii) only the first `--` is the separator: a second one is a word like any other and
        // is delivered (or refused) exactly like an unrelated word in its place
        if let Some(dd) = line.origin.iter().position(|o| o.role == Role::DashDash) {
            let at = dd + 1 + rng.below(line.argv.len() - dd);
            let neutral = b"zzneutralword".to_vec();
            let mut with_dd = line.argv.clone();
            with_dd.insert(at, b"--".to_vec());
            let mut with_word = line.argv.clone();
            with_word.insert(at, neutral.clone());
            let (o_dd, _) = b.run(case, &with_dd, "insert:second-separator");
            let (o_word, _) = b.run(case, &with_word, "insert:word-right-of-separator");
            let abnormal = |o: &Outcome| matches!(o, Outcome::Panic(_) | Outcome::FuelExhausted);
            if !abnormal(&o_dd) && !abnormal(&o_word) {
                let agree = match (&o_dd, &o_word) {
                    (Outcome::Value(a), Outcome::Value(w)) => {
                        let mut w = w.clone();
                        subst_bytes(&mut w, &neutral, b"--");
                        *a == w
                    }
                    (Outcome::Stderr { .. }, Outcome::Stderr { .. }) => true,
                    (a, w) => a == w,
                };
                if !agree {
                    case.rep.violation(
                        "insert:second-separator:differs-from-a-word",
                        "conservation",
                        case.index,
                        b.detail(
                            &with_dd,
                            "insert:second-separator",
                            &format!(
                                "what an unrelated word in that place gives ({}): {}",
                                crate::json::show_argv(&with_word).render(),
                                o_word.show()
                            ),
                            &o_dd,
                        ),
                    );
                }
            }
        }
    }
}
