//! C13 - console rendering never loses text and respects the width.
//!
//! Differential monitor between renderings of the same `Doc` (real code on both sides): for
//! every width 1..=300 the wrapped rendering, with whitespace removed, must equal the unwrapped
//! rendering with whitespace removed; for widths >= 40 a line may exceed width+2 only if it is a
//! preformatted code line or a single unbreakable word after its indentation / definition term.
//! Short help must contain exactly the first paragraph of every help text (paragraph markers).

use super::common::*;
use super::Case;
use crate::build::build_options;
use crate::gen::{gen_options, GenOpts};
use crate::json::J;
use crate::outcome::{guarded, to_os, Outcome};
use crate::rng::Rng;
use crate::spec::*;
use bpaf::{Args, Doc, ParseFailure};

const WORDS: &[&str] = &[
    "the", "quick", "brown", "fox", "jumps", "over", "a", "lazy", "dog", "and", "parses",
    "arguments", "with", "combinators", "naïve", "größe", "日本語", "файл", "x", "I/O",
    "--not-a-flag", "`code`", "e.g.", "tab\tinside", "bell\u{7}", "nbsp\u{a0}nbsp", "…",
];

/// Help text from a small grammar: paragraphs, hard line breaks, code blocks, long words.
/// Returns the text, its code lines, and the markers of the first and of later paragraphs.
struct Help {
    text: String,
    code: Vec<String>,
    first: String,
    later: Vec<String>,
    /// 'd' for a description: only the first line of it is shown in the parent's command list
    kind: char,
    owner: Id,
}

fn gen_help(rng: &mut Rng, tag: &str) -> Help {
    let n_par = rng.range(1, 3);
    let mut text = String::new();
    let mut code = Vec::new();
    let first = format!("P1{}", tag);
    let mut later = Vec::new();
    for p in 0..n_par {
        if p > 0 {
            text.push_str("\n\n");
            let m = format!("P{}{}", p + 1, tag);
            later.push(m.clone());
            text.push_str(&m);
        } else {
            text.push_str(&first);
        }
        for _ in 0..rng.range(1, 14) {
            match rng.below(16) {
                0 => text.push_str("\n "),
                1 => text.push('\n'),
                2 if p > 0 => {
                    // indented code block (never in the first paragraph: it would end it)
                    for _ in 0..rng.range(1, 3) {
                        let c = format!(
                            "CODE{}x{} {}",
                            tag,
                            code.len(),
                            "y".repeat(rng.range(1, 90))
                        );
                        text.push_str("\n    ");
                        text.push_str(&c);
                        code.push(c);
                    }
                    text.push('\n');
                }
                6 if p > 0 && rng.chance(1, 2) => {
                    // help built with the Doc API: a nested document, then more text of the
                    // same (later) paragraph
                    let m = format!("AFTER{}x{}", tag, later.len());
                    text.push_str(&format!(" {{{{doc:NEST{}}}}} {}", tag, m));
                    later.push(m);
                }
                5 if p > 0 && rng.chance(1, 2) => {
                    // fenced code block, sometimes with an empty line inside; what follows it
                    // starts a paragraph of its own
                    text.push_str("\n\n```\n");
                    for k in 0..rng.range(1, 3) {
                        if k > 0 && rng.chance(1, 2) {
                            text.push('\n');
                        }
                        let c = format!(
                            "CODE{}x{} {}",
                            tag,
                            code.len(),
                            "z".repeat(rng.range(1, 90))
                        );
                        text.push_str(&c);
                        text.push('\n');
                        code.push(c);
                    }
                    // the closing fence may carry trailing blanks or more backticks
                    text.push_str(match rng.below(4) {
                        0 => "``` \n\nafter-fence",
                        1 => "````\n\nafter-fence",
                        _ => "```\n\nafter-fence",
                    });
                    for _ in 0..rng.range(0, 12) {
                        text.push(' ');
                        text.push_str(*rng.pick(WORDS));
                    }
                }
                3 => {
                    text.push(' ');
                    let len = rng.range(20, 200);
                    text.push_str(&"W".repeat(len));
                }
                4 => {
                    text.push(' ');
                    text.push_str(&"ж".repeat(rng.range(5, 60)));
                }
                _ => {
                    text.push(' ');
                    let w: &str = *rng.pick(WORDS);
                    text.push_str(w);
                }
            }
        }
    }
    Help {
        text,
        code,
        first,
        later,
        kind: ' ',
        owner: 0,
    }
}

struct Decorated {
    spec: OptSpec,
    helps: Vec<Help>,
    terms: Vec<String>,
}

fn decorate(spec: &mut OptSpec, rng: &mut Rng, helps: &mut Vec<Help>) {
    let mut tag = |helps: &mut Vec<Help>, rng: &mut Rng, what: &str, id: Id| -> String {
        let mut h = gen_help(rng, &format!("{}{}q", what, id));
        h.kind = what.chars().next().unwrap_or(' ');
        h.owner = id;
        let t = h.text.clone();
        helps.push(h);
        t
    };
    fn go(
        s: &mut Spec,
        rng: &mut Rng,
        helps: &mut Vec<Help>,
        tag: &mut dyn FnMut(&mut Vec<Help>, &mut Rng, &str, Id) -> String,
    ) {
        match s {
            Spec::Item(i) => {
                if rng.chance(3, 4) {
                    i.help = Some(tag(helps, rng, "i", i.id));
                }
                if rng.chance(1, 6) {
                    if let Leaf::Arg { metavar, .. } | Leaf::Pos { metavar, .. } = &mut i.leaf {
                        // long or lower-case metavars change the term width
                        *metavar = match rng.below(3) {
                            0 => format!("VERY_LONG_METAVAR_NAME_{}", i.id),
                            1 => format!("lower{}", i.id),
                            _ => format!("M{}", i.id),
                        };
                    }
                }
            }
            Spec::Wrap { inner, .. } => go(inner, rng, helps, tag),
            Spec::Seq(xs) | Spec::Alt(xs) | Spec::Adj(xs) => {
                for x in xs {
                    go(x, rng, helps, tag);
                }
            }
            Spec::Cmd(c) => {
                if rng.chance(1, 2) {
                    c.help = Some(tag(helps, rng, "c", c.id));
                }
                let id = c.id;
                c.opts.descr = Some(tag(helps, rng, "d", id));
                if rng.chance(1, 2) {
                    c.opts.header = Some(tag(helps, rng, "h", id));
                }
                if rng.chance(1, 2) {
                    c.opts.footer = Some(tag(helps, rng, "f", id));
                }
                go(&mut c.opts.root, rng, helps, tag);
            }
            _ => {}
        }
    }
    if rng.chance(2, 3) {
        spec.descr = Some(tag(helps, rng, "d", 0));
    }
    if rng.chance(1, 2) {
        spec.header = Some(tag(helps, rng, "h", 0));
    }
    if rng.chance(1, 2) {
        spec.footer = Some(tag(helps, rng, "f", 0));
    }
    go(&mut spec.root, rng, helps, &mut tag);
}

fn strip_ws(s: &str) -> String {
    s.chars().filter(|c| !c.is_whitespace()).collect()
}

/// texts of definition terms as bpaf prints them (for the "term + one word" allowance)
fn terms_of(spec: &OptSpec, out: &mut Vec<String>) {
    let mut items = Vec::new();
    spec.root.all_items(&mut items);
    for i in items {
        let mv = match &i.leaf {
            Leaf::Arg { metavar, .. } | Leaf::Pos { metavar, .. } => Some(metavar.clone()),
            _ => None,
        };
        let shown_mv = mv.map(|m| {
            if m
                .chars()
                .all(|c| c.is_uppercase() || c.is_ascii_digit() || c == '-' || c == '_')
            {
                m
            } else {
                format!("<{}>", m)
            }
        });
        let mut t = String::new();
        match (i.names.shorts.first(), i.names.longs.first()) {
            (Some(s), Some(l)) => t.push_str(&format!("-{}, --{}", s, l)),
            (Some(s), None) => t.push_str(&format!("-{}", s)),
            (None, Some(l)) => t.push_str(&format!("--{}", l)),
            (None, None) => {}
        }
        if let Some(m) = shown_mv {
            if i.is_arg() {
                t.push('=');
            }
            t.push_str(&m);
        }
        out.push(t);
    }
}

fn check_doc(
    case: &mut Case,
    b_spec: &OptSpec,
    doc: &Doc,
    what: &str,
    argv: &[Vec<u8>],
    code: &[String],
    terms: &[String],
    h: u64,
) {
    let reference = match guarded(RENDER_FUEL, || format!("{:60000}", doc)).0 {
        Ok(r) => r,
        Err(o) => {
            case.rep.violation(
                &format!("render-abnormal:{}", o.class()),
                "total",
                case.index,
                case_json(b_spec, argv).set("doc", what).set("observed", o.show()),
            );
            return;
        }
    };
    let ref_stripped = strip_ws(&reference);
    let mut longest_line = 0;
    for w in 1..=300usize {
        let (rendered, hk) = guarded(RENDER_FUEL, || format!("{:w$}", doc, w = w));
        case.rep.max("render_ticks_max", hk.ticks);
        let rendered = match rendered {
            Ok(r) => r,
            Err(o) => {
                case.rep.violation(
                    &format!("render-abnormal:{}", o.class()),
                    "total",
                    case.index,
                    case_json(b_spec, argv)
                        .set("doc", what)
                        .set("width", w)
                        .set("observed", o.show()),
                );
                return;
            }
        };
        case.rep
            .exec(h, argv, 1300 + w as u64, !ref_stripped.is_empty());
        case.rep.count("renderings");
        if strip_ws(&rendered) != ref_stripped {
            // locate the first difference for the witness
            let a: Vec<char> = strip_ws(&rendered).chars().collect();
            let r: Vec<char> = ref_stripped.chars().collect();
            let at = a
                .iter()
                .zip(r.iter())
                .position(|(x, y)| x != y)
                .unwrap_or(a.len().min(r.len()));
            let ctx = |v: &[char]| -> String {
                v[at.saturating_sub(20)..(at + 20).min(v.len())].iter().collect()
            };
            case.rep.violation(
                "content-differs-from-unwrapped",
                "content",
                case.index,
                case_json(b_spec, argv)
                    .set("doc", what)
                    .set("width", w)
                    .set("wrapped_near", ctx(&a))
                    .set("unwrapped_near", ctx(&r))
                    .set("wrapped_len", a.len())
                    .set("unwrapped_len", r.len()),
            );
            return;
        }
        if w < 40 {
            continue;
        }
        for line in rendered.lines() {
            let n = line.chars().count();
            longest_line = longest_line.max(n);
            if n <= w + 2 {
                continue;
            }
            let t = line.trim();
            if code.iter().any(|c| c.trim() == t) {
                case.rep.count("overlong:code-line(allowed)");
                continue;
            }
            let words: Vec<&str> = t.split(' ').filter(|x| !x.is_empty()).collect();
            if words.len() <= 1 {
                case.rep.count("overlong:single-word(allowed)");
                continue;
            }
            // definition term followed by exactly one word
            let term_plus_word = terms.iter().any(|term| {
                !term.is_empty()
                    && t.starts_with(term.as_str())
                    && t[term.len()..].split(' ').filter(|x| !x.is_empty()).count() <= 1
            });
            if term_plus_word {
                case.rep.count("overlong:term+single-word(allowed)");
                continue;
            }
            // a term wider than the line is itself broken between its fragments
            // (`--a-very-long-name=` / `META`): the tail of a term followed by exactly one word
            let tail_plus_word = terms.iter().any(|term| {
                term.char_indices().any(|(ix, ch)| {
                    if ch != '=' && ch != ' ' {
                        return false;
                    }
                    // the break is in front of `=` or behind it
                    [&term[ix..], &term[ix + ch.len_utf8()..]].iter().any(|tail| {
                        let tail = tail.trim_start();
                        !tail.is_empty()
                            && t.starts_with(tail)
                            && t[tail.len()..].split(' ').filter(|x| !x.is_empty()).count() <= 1
                    })
                })
            });
            if tail_plus_word {
                case.rep.count("overlong:tail-of-term+single-word(allowed)");
                continue;
            }
            case.rep.violation(
                "line-exceeds-width",
                "width",
                case.index,
                case_json(b_spec, argv)
                    .set("doc", what)
                    .set("width", w)
                    .set("line_chars", n)
                    .set("line", crate::outcome::clip(line)),
            );
            return;
        }
    }
    case.rep.max("longest_line_chars", longest_line as u64);
}

pub fn run_case(case: &mut Case) {
    let mut rng = case.rng(0);
    let mut o = GenOpts::general();
    o.cmd_depth = 1;
    o.max_named = 5;
    o.help_texts = false;
    o.info = false;
    o.hidden = true;
    o.env = true;
    o.env_only = false;
    let mut spec = gen_options(&mut rng, o);
    let mut helps = Vec::new();
    decorate(&mut spec, &mut rng, &mut helps);
    let mut terms = Vec::new();
    terms_of(&spec, &mut terms);
    let code: Vec<String> = helps.iter().flat_map(|h| h.code.iter().cloned()).collect();
    let d = Decorated { spec, helps, terms };
    let h = d.spec.hash64();
    case.rep.definition(h);
    case.say(&format!("definition: {}", d.spec.pretty()));
    let parser = build_options(&d.spec);
    // in a third of the cases the variables of the arguments are set to a text with an empty
    // line in it: help shows `[env:VAR = ..]`, which is a part of the document like any other
    let mut vars_set: Vec<String> = Vec::new();
    if case.index % 3 == 1 {
        let mut items = Vec::new();
        d.spec.root.all_items(&mut items);
        for it in items {
            // (text-typed ones: an invalid value makes the enclosing level fail and answer for
            // its subcommands, F07)
            if it.is_arg() && it.ty().map_or(false, |t| !t.is_num()) {
                for v in &it.names.envs {
                    std::env::set_var(v, "first line\n\nsecond paragraph \\ \"quoted\"");
                    vars_set.push(v.clone());
                }
            }
        }
        if !vars_set.is_empty() {
            case.rep.count("definitions-with-variables-set");
        }
    }

    // documents: help of every level (short and full), and error documents with long items
    let mut vectors: Vec<(Vec<Vec<u8>>, &str, Id)> = vec![
        (vec![b"--help".to_vec()], "help", 0),
        (vec![b"--help".to_vec(), b"--help".to_vec()], "help-full", 0),
    ];
    let mut cmds = Vec::new();
    d.spec.root.level_cmds(&mut cmds);
    for c in cmds.iter().take(2) {
        vectors.push((
            vec![c.names[0].clone().into_bytes(), b"--help".to_vec()],
            "command-help",
            c.id,
        ));
    }
    let alpha = alphabet(&d.spec);
    for _ in 0..2 {
        let mut v = noise_vector(&alpha, &mut rng, 4);
        v.push(
            format!("--{}", "z".repeat(rng.range(10, 150)))
                .into_bytes(),
        );
        v.retain(|a| !a.starts_with(b"--help") && a != b"-h");
        vectors.push((v, "error", 0));
    }

    for (argv, what, level) in vectors {
        let os = to_os(&argv);
        let (res, _) = guarded(fuel_for(&d.spec, &argv), || {
            parser.run_inner(Args::from(os.as_slice()).set_name("app"))
        });
        let (doc, full) = match res {
            Ok(Err(ParseFailure::Stdout(doc, full))) => (doc, full),
            Ok(Err(ParseFailure::Stderr(doc))) => (doc, true),
            Ok(_) => continue,
            Err(o) => {
                if matches!(o, Outcome::Panic(_) | Outcome::FuelExhausted) {
                    case.rep.inconclusive("run_inner-abnormal(C04)");
                }
                continue;
            }
        };
        case.rep.count(&format!("doc:{}", what));
        check_doc(case, &d.spec, &doc, what, &argv, &code, &d.terms, h);

        // short form: exactly the first paragraph of every help text that is shown at all
        if what.contains("help") {
            let (short, long) = match guarded(RENDER_FUEL, || {
                (doc.monochrome(false), doc.monochrome(true))
            })
            .0
            {
                Ok(x) => x,
                // reported by check_doc above
                Err(_) => continue,
            };
            let _ = full;
            // an enclosing level that is not satisfied answers with its own screen (F07, C10's
            // subject): the paragraphs of the command's texts are not expected there
            if what == "command-help" {
                let name = String::from_utf8_lossy(&argv[0]).to_string();
                let own = long
                    .lines()
                    .find(|l| l.starts_with("Usage:"))
                    .map_or(false, |l| l.contains(&format!("app {}", name)));
                if !own {
                    case.rep.count("command-help-answered-by-enclosing-level");
                    continue;
                }
            }
            for hp in &d.helps {
                if !long.contains(&hp.first) {
                    continue; // not part of this level's help (other level, hidden, deduplicated)
                }
                if hp.kind == 'd' && hp.owner != level {
                    continue; // a subcommand's description: the parent lists its first line only
                }
                case.rep.count("short-help-texts-checked");
                let mut problem = None;
                if !short.contains(&hp.first) {
                    problem = Some(format!("first paragraph {} missing from short help", hp.first));
                }
                for l in &hp.later {
                    if short.contains(l) {
                        problem = Some(format!("later paragraph {} present in short help", l));
                    }
                    if !long.contains(l) {
                        problem = Some(format!("later paragraph {} missing from full help", l));
                    }
                }
                if let Some(p) = problem {
                    case.rep.violation(
                        "short-help-paragraphs",
                        "short-form",
                        case.index,
                        case_json(&d.spec, &argv)
                            .set("problem", p)
                            .set("short", crate::outcome::clip(&short))
                            .set("full", crate::outcome::clip(&long)),
                    );
                    break;
                }
            }
        }
        if what == "help" {
            case.rep.sample(
                J::obj()
                    .set("definition", crate::outcome::clip(&d.spec.pretty()))
                    .set("doc", what)
                    .set("widths", "1..=300")
                    .set(
                        "rendered_at_60",
                        crate::outcome::clip(
                            &guarded(RENDER_FUEL, || format!("{:60}", doc)).0.unwrap_or_default(),
                        ),
                    ),
            );
        }
    }
    for v in vars_set {
        std::env::remove_var(v);
    }
}
