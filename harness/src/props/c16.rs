//! C16 - generated documentation is complete and well-formed.
//!
//! Output-protocol monitors over `render_markdown`, `render_html`, `render_manpage`: an HTML
//! tag-stack lexer (only bpaf's own tags may open, all balanced), a roff control-line classifier
//! and escape scanner (only bpaf's own requests and escapes), and a "mentions" search that
//! checks every command level has a section mentioning each visible item and no hidden one.
//! User strings are seeded with roff/HTML/markdown metacharacters at line starts and after
//! line breaks.

use super::common::*;
use super::helpmodel::*;
use super::Case;
use crate::build::build_options;
use crate::gen::{gen_options, GenOpts};
use crate::json::J;
use crate::outcome::{clip, guarded};
use crate::rng::Rng;
use crate::spec::*;

const HOSTILE: &[&str] = &[
    ".XX request",
    "'XX request",
    "\\fZ font",
    "\\(xx glyph",
    "\\*Q string",
    "\\n(zz register",
    "<script>alert(1)</script>",
    "</dd></dl>",
    "<b>bold",
    "a<b>c",
    "x > y",
    "&lt;",
    "[link](http://x)",
    "`tick",
    "*star*",
    "# hash",
    "-dash",
    "it's",
    "\"quoted\"",
    "plain words",
    "tab\there",
];

/// text with a unique marker and hostile payloads at the start, after a soft newline, after a
/// hard line break and in a second paragraph
fn hostile_text(rng: &mut Rng, marker: &str) -> String {
    let mut s = String::new();
    let p = |rng: &mut Rng| -> &'static str { *rng.pick(HOSTILE) };
    match rng.below(4) {
        0 => {
            s.push_str(p(rng));
            s.push(' ');
            s.push_str(marker);
        }
        _ => {
            s.push_str(marker);
            s.push(' ');
            s.push_str(p(rng));
        }
    }
    if rng.chance(1, 3) {
        s.push('\n');
        s.push_str(p(rng));
    }
    if rng.chance(1, 3) {
        s.push_str("\n ");
        s.push_str(p(rng));
    }
    if rng.chance(1, 4) {
        s.push_str("\n\n");
        s.push_str(p(rng));
    }
    // code blocks: indented, or fenced (sometimes with an empty line inside)
    match rng.below(10) {
        0 => {
            s.push_str("\n\n    ");
            s.push_str(p(rng));
            s.push_str("\n    ");
            s.push_str(p(rng));
        }
        1 => {
            s.push_str("\n\n```\n");
            s.push_str(p(rng));
            s.push('\n');
            if rng.chance(1, 2) {
                s.push('\n');
            }
            s.push_str(p(rng));
            s.push_str("\n```");
            if rng.chance(1, 2) {
                s.push_str("\n\n");
                s.push_str(p(rng));
            }
        }
        _ => {}
    }
    s
}

fn seed_texts(o: &mut OptSpec, rng: &mut Rng, id: Id) {
    o.descr = Some(hostile_text(rng, &format!("DESCR{}m", id)));
    if rng.chance(1, 2) {
        o.header = Some(hostile_text(rng, &format!("HEADER{}m", id)));
    }
    if rng.chance(1, 2) {
        o.footer = Some(hostile_text(rng, &format!("FOOTER{}m", id)));
    }
    o.usage = None;
    fn go(s: &mut Spec, rng: &mut Rng) {
        match s {
            Spec::Item(i) => {
                if i.help.is_some() || rng.chance(1, 2) {
                    let mut h = hostile_text(rng, &format!("HELP{}m", i.id));
                    // a help written with the Doc API: styled fragments right next to each
                    // other, with no plain text in between
                    if rng.chance(1, 6) {
                        let frag = |rng: &mut Rng, k: usize| match rng.below(3) {
                            0 => format!("{{{{lit:--lit{}}}}}", k),
                            1 => format!("{{{{emp: stressed{} words}}}}", k),
                            _ => format!("{{{{inv: wrong{}}}}}", k),
                        };
                        h.push(' ');
                        for k in 0..rng.range(2, 3) {
                            let f = frag(rng, k);
                            h.push_str(&f);
                        }
                        h.push_str(" tail");
                    }
                    i.help = Some(h);
                }
                if let Leaf::Arg { metavar, .. } | Leaf::Pos { metavar, .. } = &mut i.leaf {
                    if rng.chance(1, 5) {
                        *metavar = format!("{}{}", rng.pick(&[".MV", "'mv", "\\fMV", "<mv>"]), i.id);
                    }
                }
            }
            Spec::Wrap { w, id, inner } => {
                match w {
                    W::GroupHelp(h) | W::WithGroupHelp(h) | W::CustomUsage(h) => {
                        *h = hostile_text(rng, &format!("GROUP{}m", id));
                    }
                    _ => {}
                }
                go(inner, rng);
            }
            Spec::Seq(xs) | Spec::Alt(xs) | Spec::Adj(xs) => {
                for x in xs {
                    go(x, rng);
                }
            }
            Spec::Cmd(c) => {
                if c.help.is_some() {
                    c.help = Some(hostile_text(rng, &format!("CMDHELP{}m", c.id)));
                }
                let id = c.id;
                seed_texts(&mut c.opts, rng, id);
            }
            _ => {}
        }
    }
    go(&mut o.root, rng);
}

const HTML_TAGS: &[&str] = &[
    "p", "dl", "dt", "dd", "li", "div", "tt", "b", "i",
];

/// tag-stack lexer: Err(description) on the first problem
fn check_html(doc: &str) -> Result<usize, String> {
    let mut stack: Vec<String> = Vec::new();
    let mut tags = 0;
    let bytes = doc.as_bytes();
    let mut i = 0;
    while i < bytes.len() {
        if bytes[i] == b'>' {
            return Err(format!(
                "bare `>` outside a tag near {:?}",
                clip(&doc[i.saturating_sub(30)..(i + 10).min(doc.len())])
            ));
        }
        if bytes[i] != b'<' {
            i += 1;
            continue;
        }
        let end = match doc[i..].find('>') {
            Some(e) => i + e,
            None => return Err("unterminated tag".into()),
        };
        let inner = &doc[i + 1..end];
        tags += 1;
        let near = || clip(&doc[i.saturating_sub(30)..(end + 10).min(doc.len())]);
        if inner == "br" {
            // void
        } else if let Some(name) = inner.strip_prefix('/') {
            if !HTML_TAGS.contains(&name) {
                return Err(format!("closing tag `</{}>` is not one of bpaf's, near {:?}", name, near()));
            }
            match stack.pop() {
                Some(open) if open == name => {}
                Some(open) => {
                    return Err(format!(
                        "`</{}>` closes `<{}>`, near {:?}",
                        name,
                        open,
                        near()
                    ))
                }
                None => return Err(format!("`</{}>` without an open tag, near {:?}", name, near())),
            }
        } else {
            let name = if inner == "div style='padding-left: 0.5em'" {
                "div"
            } else {
                inner
            };
            if !HTML_TAGS.contains(&name) {
                return Err(format!("tag `<{}>` is not one of bpaf's, near {:?}", inner, near()));
            }
            stack.push(name.to_string());
        }
        i = end + 1;
    }
    if let Some(open) = stack.pop() {
        return Err(format!("`<{}>` is never closed", open));
    }
    Ok(tags)
}

const ROFF_REQUESTS: &[&str] = &["TH", "SH", "SS", "TP", "PP", "nf", "fi"];
const PREAMBLE: &str = ".ie \\n(.g .ds Aq \\(aq\n.el .ds Aq '\n";

/// control-line classifier + escape scanner
fn check_roff(doc: &str) -> Result<(usize, usize), String> {
    let body = match doc.strip_prefix(PREAMBLE) {
        Some(b) => b,
        None => return Err("apostrophe preamble missing".into()),
    };
    let mut controls = 0;
    let mut escapes = 0;
    for line in body.split('\n') {
        if line.starts_with('.') || line.starts_with('\'') {
            let req: String = line[1..]
                .chars()
                .take_while(|c| !c.is_whitespace())
                .collect();
            if !line.starts_with('.') || !ROFF_REQUESTS.contains(&req.as_str()) {
                return Err(format!("control line that is not bpaf's: {:?}", clip(line)));
            }
            controls += 1;
        }
        // escapes
        let cs: Vec<char> = line.chars().collect();
        let mut k = 0;
        while k < cs.len() {
            if cs[k] != '\\' {
                k += 1;
                continue;
            }
            escapes += 1;
            let rest: String = cs[k + 1..].iter().take(4).collect();
            let ok_len = if rest.starts_with("fB")
                || rest.starts_with("fI")
                || rest.starts_with("fR")
                || rest.starts_with("fP")
            {
                2
            } else if rest.starts_with('-')
                || rest.starts_with('\\')
                || rest.starts_with('&')
                || rest.starts_with(' ')
                || rest.starts_with('e')
            {
                // `\e` (printable backslash) is what macro arguments use since the fix of F08
                1
            } else if rest.starts_with("*(Aq") {
                4
            } else {
                return Err(format!(
                    "escape `\\{}` is not one bpaf emits, in line {:?}",
                    rest,
                    clip(line)
                ));
            };
            k += 1 + ok_len;
        }
    }
    Ok((controls, escapes))
}

fn roff_escaped(s: &str) -> String {
    s.replace('\\', "\\\\").replace('-', "\\-")
}

/// sections of a markdown/html document: (header text, body)
fn sections(doc: &str) -> Vec<(String, String)> {
    let mut out: Vec<(String, String)> = Vec::new();
    for line in doc.split('\n') {
        // section headers produced by bpaf start with the application name (user text such as
        // "# hash" after a hard line break must not be mistaken for one)
        let header = line
            .strip_prefix("## ")
            .or_else(|| line.strip_prefix("# "))
            .map(|h| h.trim().trim_end_matches("<br>").trim().to_string())
            .filter(|h| h == "app" || h.starts_with("app ") || h == "Command summary");
        match header {
            Some(h) => out.push((h, String::new())),
            None => {
                if let Some(last) = out.last_mut() {
                    last.1.push_str(line);
                    last.1.push('\n');
                }
            }
        }
    }
    out
}

/// `app remote add` and `app stash add`: commands on different paths with the same name and the
/// same description are still two levels
fn same_named_commands(spec: &mut OptSpec) -> bool {
    fn cmds_mut<'a>(s: &'a mut Spec, out: &mut Vec<&'a mut CmdSpec>) {
        match s {
            Spec::Cmd(c) => out.push(c),
            Spec::Wrap { inner, .. } => cmds_mut(inner, out),
            Spec::Seq(xs) | Spec::Alt(xs) | Spec::Adj(xs) => {
                for x in xs {
                    cmds_mut(x, out);
                }
            }
            _ => {}
        }
    }
    let mut top = Vec::new();
    cmds_mut(&mut spec.root, &mut top);
    let mut donor: Option<(Vec<String>, Option<String>, Option<String>)> = None;
    for c in top {
        let mut nested = Vec::new();
        cmds_mut(&mut c.opts.root, &mut nested);
        let n = match nested.into_iter().next() {
            Some(n) => n,
            None => continue,
        };
        match &donor {
            None => donor = Some((n.names.clone(), n.help.clone(), n.opts.descr.clone())),
            Some((names, help, descr)) => {
                n.names = names.clone();
                n.shorts.clear();
                n.help = help.clone();
                n.opts.descr = descr.clone();
                return true;
            }
        }
    }
    false
}

pub fn run_case(case: &mut Case) {
    let mut rng = case.rng(0);
    let mut o = GenOpts::general();
    o.cmd_depth = 2;
    o.max_named = 5;
    o.twins = true;
    o.pure_fail = true;
    o.custom_help = true;
    // flags and arguments backed by environment variables: "Uses environment variable .."
    o.env = true;
    o.env_only = false;
    // chains of adjacent commands are command levels like any other
    o.adjacent_cmds = true;
    let mut spec = gen_options(&mut rng, o);
    seed_texts(&mut spec, &mut rng, 0);
    if rng.chance(1, 2) && same_named_commands(&mut spec) {
        case.rep.count("definitions-with-same-named-commands-on-different-paths");
    }
    let h = spec.hash64();
    case.rep.definition(h);
    case.say(&format!("definition: {}", spec.pretty()));
    let parser = build_options(&spec);

    let mut lv = Vec::new();
    levels(&spec, &mut vec!["app".to_string()], &mut lv);
    let visible_levels: Vec<&(Vec<String>, &OptSpec, bool)> =
        lv.iter().filter(|l| !l.2).collect();

    let renders: Vec<(&str, Result<String, crate::outcome::Outcome>)> = vec![
        ("markdown", guarded(RENDER_FUEL, || parser.render_markdown("app")).0),
        ("html", guarded(RENDER_FUEL, || parser.render_html("app")).0),
        (
            "manpage",
            guarded(RENDER_FUEL, || {
                parser.render_manpage(
                    "app",
                    bpaf::doc::Section::General,
                    Some("2026-10-02"),
                    Some("vendor .XX"),
                    Some("title \\fZ"),
                )
            })
            .0,
        ),
    ];
    for (fmt, res) in renders {
        case.rep.exec(h, &[fmt.as_bytes().to_vec()], 16, true);
        case.rep.count(&format!("rendered:{}", fmt));
        let doc = match res {
            Ok(d) => d,
            Err(o) => {
                case.rep.violation(
                    &format!("render-abnormal:{}:{}", fmt, o.class()),
                    "succeeds",
                    case.index,
                    J::obj()
                        .set("definition", def_json(&spec))
                        .set("observed", o.show()),
                );
                continue;
            }
        };
        let detail = |problem: String| {
            J::obj()
                .set("definition", def_json(&spec))
                .set("format", fmt)
                .set("problem", problem)
                .set("document", clip(&doc))
        };
        // well-formedness
        match fmt {
            "html" => match check_html(&doc) {
                Ok(n) => case.rep.add("html_tags_checked", n as u64),
                Err(e) => {
                    let sig = if e.contains("not one of bpaf's") || e.contains("bare") {
                        "html:user-text-opens-a-tag"
                    } else {
                        "html:unbalanced"
                    };
                    case.rep
                        .violation(sig, "well-formed", case.index, detail(e));
                }
            },
            "manpage" => match check_roff(&doc) {
                Ok((c, e)) => {
                    case.rep.add("roff_control_lines_checked", c as u64);
                    case.rep.add("roff_escapes_checked", e as u64);
                }
                Err(e) => {
                    let sig = if e.starts_with("control line") {
                        "roff:foreign-control-line".to_string()
                    } else if e.starts_with("escape") {
                        // where: a macro argument line (.SH/.SS/.TH) or body text
                        let in_arg = e.contains("in line \".S") || e.contains("in line \".TH");
                        format!(
                            "roff:foreign-escape:{}",
                            if in_arg { "macro-argument" } else { "body" }
                        )
                    } else {
                        "roff:malformed".to_string()
                    };
                    case.rep
                        .violation(&sig, "well-formed", case.index, detail(e));
                }
            },
            _ => {}
        }
        // completeness: one section per visible level, mentioning its visible items
        if fmt != "manpage" {
            let secs = sections(&doc);
            let titles: Vec<&str> = secs.iter().map(|s| s.0.as_str()).collect();
            for (path, level, _) in visible_levels.iter().map(|l| (&l.0, l.1, l.2)) {
                let title = path.join(" ");
                case.rep.count("levels-checked");
                let sec = secs.iter().find(|s| s.0 == title);
                let body = match sec {
                    Some(s) => &s.1,
                    None => {
                        case.rep.violation(
                            &format!("{}:level-without-section", fmt),
                            "complete",
                            case.index,
                            detail(format!(
                                "no section titled {:?}; sections: {:?}",
                                title, titles
                            )),
                        );
                        continue;
                    }
                };
                let view = level_view(level);
                for it in view.items.iter().filter(|i| !i.hidden) {
                    if it.is_pos && it.help.is_none() {
                        continue;
                    }
                    case.rep.count("mentions-checked");
                    let marker = format!("HELP{}m", it.id);
                    let by_help = it.help.is_some() && body.contains(&marker);
                    let by_name = it
                        .long
                        .as_ref()
                        .map_or(false, |l| body.contains(&format!("--{}", l.replace('<', "&lt;").replace('>', "&gt;"))))
                        || it.short.map_or(false, |s| body.contains(&format!("-{}", s)));
                    let by_metavar = it.is_pos
                        && it.metavar.as_ref().map_or(false, |m| {
                            body.contains(&m.replace('<', "&lt;").replace('>', "&gt;"))
                                || body.contains(m.as_str())
                        });
                    if !(by_name || by_metavar) || (it.help.is_some() && !by_help) {
                        case.rep.violation(
                            &format!("{}:visible-item-not-mentioned", fmt),
                            "complete",
                            case.index,
                            detail(format!(
                                "item {} (term {:?}) is not mentioned in section {:?}",
                                it.id,
                                it.term(),
                                title
                            )),
                        );
                    }
                }
            }
            // the help and version switches a section lists are those of its own level
            for (path, level, _) in visible_levels.iter().map(|l| (&l.0, l.1, l.2)) {
                let title = path.join(" ");
                let body = match secs.iter().find(|s| s.0 == title) {
                    Some(s) => &s.1,
                    None => continue,
                };
                let esc = |l: &str| l.replace('<', "&lt;").replace('>', "&gt;");
                let own_help = level.help_names();
                let own_version = level.version_names();
                let mut problems = Vec::new();
                if let Some(l) = own_help.longs.first() {
                    if !body.contains(&format!("--{}", esc(l))) {
                        problems.push(format!("help switch --{} is not listed", l));
                    }
                }
                match (&level.version, own_version.longs.first()) {
                    (Some(_), Some(l)) => {
                        if !body.contains(&format!("--{}", esc(l))) {
                            problems.push(format!("version switch --{} is not listed", l));
                        }
                    }
                    (None, _) => {
                        // the default name is only taken when nothing of the level is called so
                        let mut items = Vec::new();
                        level.root.level_items(&mut items);
                        let clash = items.iter().any(|i| i.names.longs.iter().any(|l| l == "version"));
                        if !clash && body.contains("--version") {
                            problems.push("a version switch is listed, none is configured".into());
                        }
                    }
                    _ => {}
                }
                case.rep.count("help-version-switches-checked");
                for pr in problems {
                    case.rep.violation(
                        &format!("{}:help-or-version-switch-of-another-level", fmt),
                        "complete",
                        case.index,
                        detail(format!("section {:?}: {}", title, pr)),
                    );
                }
            }
            if secs.len() < visible_levels.len() {
                case.rep.count("fewer-sections-than-levels");
            }
        }
        // nothing hidden is mentioned anywhere, in any format
        let mut all_items = Vec::new();
        for (_, level, level_hidden) in &lv {
            let view = level_view(level);
            for it in view.items {
                if it.hidden || *level_hidden {
                    all_items.push(it);
                }
            }
        }
        for it in &all_items {
            if it.help.is_none() {
                continue;
            }
            let marker = format!("HELP{}m", it.id);
            case.rep.count("hidden-checked");
            if doc.contains(&marker) {
                case.rep.violation(
                    &format!("{}:hidden-item-mentioned", fmt),
                    "complete",
                    case.index,
                    detail(format!("help of hidden item {} appears", it.id)),
                );
            }
        }
        if fmt == "manpage" {
            // visible items of every visible level are mentioned somewhere (roff-escaped)
            for (_, level, _) in visible_levels.iter().map(|l| (&l.0, l.1, l.2)) {
                let view = level_view(level);
                for it in view.items.iter().filter(|i| !i.hidden && i.help.is_some()) {
                    case.rep.count("mentions-checked");
                    if !doc.contains(&roff_escaped(&format!("HELP{}m", it.id))) {
                        case.rep.violation(
                            "manpage:visible-item-not-mentioned",
                            "complete",
                            case.index,
                            detail(format!("help marker of item {} is missing", it.id)),
                        );
                    }
                }
            }
        }
        if fmt == "manpage" {
            // ... and so are the help and version switches of every visible level, under the
            // names that level gave them
            for (path, level, _) in visible_levels.iter().map(|l| (&l.0, l.1, l.2)) {
                let mut wanted = Vec::new();
                if let Some(l) = level.help_names().longs.first() {
                    wanted.push(format!("--{}", l));
                }
                if level.version.is_some() {
                    if let Some(l) = level.version_names().longs.first() {
                        wanted.push(format!("--{}", l));
                    }
                }
                for w in wanted {
                    case.rep.count("help-version-switches-checked");
                    if !doc.contains(&roff_escaped(&w)) && !doc.contains(&w) {
                        case.rep.violation(
                            "manpage:help-or-version-switch-of-another-level",
                            "complete",
                            case.index,
                            detail(format!(
                                "level {:?}: its switch {} is not mentioned anywhere",
                                path.join(" "),
                                w
                            )),
                        );
                    }
                }
            }
        }
        if fmt == "manpage" && case.index % 16 == 0 {
            case.rep.sample(
                J::obj()
                    .set("definition", clip(&spec.pretty()))
                    .set("format", fmt)
                    .set("document", clip(&doc)),
            );
        }
    }
}
