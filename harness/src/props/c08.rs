//! C08 - subcommands scope what follows them.
//!
//! Reference recogniser (level by level) + derivations over command trees of depth <= 3, plus
//! targeted misplacements (a deeper level's item left of its command name, a command name where
//! none is expected, an unknown command) and help identification by per-level header markers.

use super::c01::judge;
use super::common::*;
use super::Case;
use crate::deriv::*;
use crate::gen::{GenOpts, Pool};
use crate::outcome::Outcome;
use crate::spec::*;

fn header_of(id: Id) -> String {
    format!("HDR-{}-level", id)
}

fn set_headers(o: &mut OptSpec, id: Id) {
    o.header = Some(header_of(id));
    fn go(s: &mut Spec) {
        match s {
            Spec::Wrap { inner, .. } => go(inner),
            Spec::Seq(xs) | Spec::Alt(xs) | Spec::Adj(xs) => xs.iter_mut().for_each(go),
            Spec::Cmd(c) => {
                let id = c.id;
                set_headers(&mut c.opts, id);
            }
            _ => {}
        }
    }
    go(&mut o.root);
}

/// a level that always ends in a command choice
fn gen_tree(p: &mut Pool, depth: usize) -> OptSpec {
    let mut fields = Vec::new();
    for _ in 0..p.rng.below(4) {
        fields.push(p.named_field());
    }
    if depth == 0 {
        fields.extend(p.positionals(2));
        return OptSpec::plain(Spec::Seq(fields));
    }
    let n = p.rng.range(1, 3);
    let mut cmds = Vec::new();
    for _ in 0..n {
        let id = p.id();
        let mut names = vec![p.cmd_name()];
        if p.rng.chance(1, 3) {
            names.push(p.cmd_name());
        }
        let mut shorts = Vec::new();
        if p.rng.chance(1, 3) {
            if let Some(c) = p.cmd_short() {
                shorts.push(c);
            }
        }
        let d = if p.rng.chance(1, 3) { 0 } else { depth - 1 };
        let mut opts = gen_tree(p, d);
        opts.descr = Some(format!("D{}-descr", id));
        let cmd = Spec::Cmd(Box::new(CmdSpec {
            id,
            names,
            shorts,
            help: None,
            adjacent: false,
            opts,
        }));
        // a hidden subcommand is a subcommand all the same
        if p.rng.chance(1, 6) {
            let hid = p.id();
            cmds.push(Spec::wrap(W::Hide, hid, cmd));
        } else {
            cmds.push(cmd);
        }
    }
    if p.rng.chance(1, 5) {
        // an alternative made of named items only, listed before the commands: it succeeds on
        // nothing, the command that was entered must still decide the outcome
        let k = p.rng.range(1, 2);
        let named: Vec<Spec> = (0..k).map(|_| p.named_field()).collect();
        cmds.insert(0, Spec::Seq(named));
    }
    let a = Spec::Alt(cmds);
    if p.rng.chance(1, 4) {
        let id = p.id();
        fields.push(Spec::wrap(W::Optional { catch: false }, id, a));
    } else if p.rng.chance(1, 5) {
        // `cmd.fallback(..)` / `cmd.fallback_with(..)`: a default when no command is given; a
        // command that was entered still decides the outcome
        let id = p.id();
        let w = if p.rng.chance(1, 2) {
            W::Fallback
        } else {
            W::FallbackWithOk
        };
        fields.push(Spec::wrap(w, id, a));
    } else {
        fields.push(a);
    }
    let mut o = OptSpec::plain(Spec::Seq(fields));
    // some levels print their usage when they are given nothing at all
    if p.rng.chance(1, 4) {
        o.fallback_to_usage = true;
    }
    o
}

/// Chains of `adjacent` subcommands whose own items are all optional: a command given nothing of
/// its own is entered all the same, what follows it (the next command of the chain, a word of the
/// enclosing level) is judged by whoever declares it
fn adjacent_commands_given_nothing(case: &mut Case) {
    let mut rng = case.rng(11);
    let cmd = |id: Id, name: &str, flag: &str| {
        let mut opts = OptSpec::plain(Spec::Seq(vec![Spec::Item(Item {
            id: id + 1,
            names: Names::long(flag),
            help: None,
            leaf: Leaf::Switch,
        })]));
        opts.descr = Some(format!("D{}-descr", id));
        Spec::Cmd(Box::new(CmdSpec {
            id,
            names: vec![name.to_string()],
            shorts: vec![],
            help: None,
            adjacent: true,
            opts,
        }))
    };
    let chain = Spec::wrap(
        W::Many { catch: false },
        30,
        Spec::Alt(vec![cmd(10, "build", "release"), cmd(20, "test", "quiet")]),
    );
    let with_word = rng.chance(1, 2);
    let mut fields = vec![chain];
    if with_word {
        fields.push(Spec::wrap(
            W::Optional { catch: false },
            41,
            Spec::Item(Item {
                id: 40,
                names: Names::default(),
                help: None,
                leaf: Leaf::Pos {
                    ty: Ty::Str,
                    metavar: "INPUT".into(),
                    strict: Strict::Any,
                },
            }),
        ));
    }
    let b = Bench::new(case, OptSpec::plain(Spec::Seq(fields)));
    let mut argv: Vec<Vec<u8>> = Vec::new();
    for _ in 0..rng.range(1, 3) {
        let (name, flag) = if rng.chance(1, 2) {
            ("build", "--release")
        } else {
            ("test", "--quiet")
        };
        argv.push(name.as_bytes().to_vec());
        if rng.chance(1, 3) {
            argv.push(flag.as_bytes().to_vec());
        }
    }
    if with_word && rng.chance(1, 2) {
        argv.push(b"input.txt".to_vec());
    }
    let (out, _) = b.run(case, &argv, "sentence:adjacent-commands-given-nothing");
    if !matches!(out, Outcome::Value(_) | Outcome::Panic(_) | Outcome::FuelExhausted) {
        case.rep.violation(
            &format!("adjacent-command-given-nothing:{}", out.class()),
            "sentence",
            case.index,
            b.detail(
                &argv,
                "sentence:adjacent-commands-given-nothing",
                "a value (every command of the chain accepts what belongs to it)",
                &out,
            ),
        );
    }
    // help behind a command name of the chain describes that command, also when it is not the
    // first one on the line
    let mut chain: Vec<Vec<u8>> = Vec::new();
    let n = rng.range(2, 3);
    let mut last = 0;
    for _ in 0..n {
        let (name, flag, id) = if rng.chance(1, 2) {
            ("build", "--release", 10)
        } else {
            ("test", "--quiet", 20)
        };
        chain.push(name.as_bytes().to_vec());
        last = id;
        if rng.chance(1, 3) {
            chain.push(flag.as_bytes().to_vec());
        }
    }
    if chain.last().map_or(false, |w| w.starts_with(b"--")) {
        chain.pop();
    }
    chain.push(if rng.chance(1, 2) { b"--help".to_vec() } else { b"-h".to_vec() });
    let (out, _) = b.run(case, &chain, "help-after-later-command-of-a-chain");
    let want = format!("D{}-descr", last);
    let other = format!("D{}-descr", 30 - last);
    let ok = matches!(&out, Outcome::Stdout { text, .. } if text.contains(&want) && !text.contains(&other));
    if !ok && !matches!(out, Outcome::Panic(_) | Outcome::FuelExhausted) {
        case.rep.violation(
            &format!("help-describes-wrong-level:adjacent-chain:{}", out.class()),
            "help-level",
            case.index,
            b.detail(
                &chain,
                "help-after-later-command-of-a-chain",
                &format!("Stdout with marker {} and without {}", want, other),
                &out,
            ),
        );
    }
}

pub fn run_case(case: &mut Case) {
    if case.index % 24 == 5 {
        adjacent_commands_given_nothing(case);
        return;
    }
    let mut rng = case.rng(0);
    let mut spec = {
        let mut p = Pool::new(&mut rng, GenOpts::conventional());
        gen_tree(&mut p, 2)
    };
    set_headers(&mut spec, 0);
    if rng.chance(1, 2) {
        // only the top level has a version
        spec.version = Some("1.2.3".to_string());
    }
    let b = Bench::new(case, spec);
    // (the short names inside a hidden command are unknown to the tokenizer - the F03 family,
    // C02's subject: lines for such trees are written without clusters and squashed values)
    let spell = if b.spec.pretty().contains(".hide()") {
        SpellStyle::Canonical
    } else {
        SpellStyle::Random
    };
    let n_der = if case.thorough { 30 } else { 12 };
    for di in 0..n_der {
        let mut g = Gen::new(&mut rng);
        let d = match derive(&b.spec.root, &mut g) {
            Some(d) => d,
            None => {
                case.rep.count("underivable");
                continue;
            }
        };
        let units = match order_units(&d.atoms, &mut rng, OrderStyle::Random, DashDash::Random) {
            Some(u) => u,
            None => continue,
        };
        let line = render(&units, &mut rng, spell);
        let max_depth = units.iter().map(|u| u.depth).max().unwrap_or(0);
        case.rep.count(&format!("entered-depth:{}", max_depth));
        judge(
            case,
            &b.spec,
            &b.parser,
            &line.argv,
            "sentence",
            Some(&d.value),
            b.h,
        );
        if di == 0 {
            case.rep.sample(
                case_json(&b.spec, &line.argv)
                    .set("class", "sentence")
                    .set("denotes", d.value.show()),
            );
        }

        // a deeper level's named item moved to the left of its command name
        let deep: Vec<usize> = units
            .iter()
            .enumerate()
            .filter(|(_, u)| {
                u.depth > 0 && matches!(u.kind, UKind::Flag { .. } | UKind::Arg { .. })
            })
            .map(|(i, _)| i)
            .collect();
        if !deep.is_empty() {
            let mi = *rng.pick(&deep);
            let mut m = units.clone();
            let mut u = m.remove(mi);
            // position of the command name that opens its level
            let opener = m
                .iter()
                .position(|x| {
                    matches!(x.kind, UKind::CmdName { .. }) && x.depth + 1 == u.depth
                })
                .unwrap_or(0);
            u.depth -= 1;
            u.after_dd = false;
            let at = rng.below(opener + 1);
            // stay left of any `--` of the enclosing level
            let at = m[..at]
                .iter()
                .position(|x| x.kind == UKind::DashDash)
                .unwrap_or(at);
            m.insert(at, u);
            let mline = render(&m, &mut rng, spell);
            let r = b.expect_stderr(
                case,
                &mline.argv,
                "deeper-item-left-of-command-name",
                "deeper-item-accepted-before-command",
                "an option of a subcommand written before the subcommand's name",
            );
            if di == 0 && r.is_some() {
                case.rep.sample(
                    case_json(&b.spec, &mline.argv)
                        .set("class", "deeper-item-left-of-command-name")
                        .set("observed", format!("Stderr({:?})", r.unwrap_or_default())),
                );
            }
        }

        // unknown command / command name of another level where a command is expected
        if let Some(ci) = units
            .iter()
            .position(|u| matches!(u.kind, UKind::CmdName { .. }))
        {
            let at = line
                .origin
                .iter()
                .position(|o| o.unit == ci)
                .unwrap_or(0);
            let mut argv = line.argv.clone();
            argv[at] = b"nosuchcommand".to_vec();
            judge(case, &b.spec, &b.parser, &argv, "unknown-command", None, b.h);
            // a command name of a different level in its place
            let other: Vec<&String> = b
                .alpha
                .cmds
                .iter()
                .filter(|c| c.as_bytes() != line.argv[at].as_slice())
                .collect();
            if !other.is_empty() {
                let mut argv = line.argv.clone();
                argv[at] = rng.pick(&other).as_bytes().to_vec();
                judge(case, &b.spec, &b.parser, &argv, "other-command-name", None, b.h);
            }
            // a command name where none is expected (in front of everything / at the end)
            let mut argv = line.argv.clone();
            let name = rng.pick(&b.alpha.cmds).clone().into_bytes();
            if rng.chance(1, 2) {
                argv.insert(0, name);
            } else if !line.origin.iter().any(|o| o.role == Role::DashDash) {
                argv.push(name);
            }
            judge(case, &b.spec, &b.parser, &argv, "extra-command-name", None, b.h);
        }

        // help after the name describes the subcommand, not the parent
        let mut ids = vec![0];
        let mut prefix: Vec<Vec<u8>> = Vec::new();
        let mut prefixes = vec![(prefix.clone(), 0)];
        for (k, o) in line.origin.iter().enumerate() {
            if o.role == Role::DashDash {
                break;
            }
            prefix.push(line.argv[k].clone());
            if o.role == Role::CmdName {
                if let UKind::CmdName { id, .. } = &units[o.unit].kind {
                    ids.push(*id);
                    // everything up to and including the command name: the enclosing levels
                    // stay valid (incomplete enclosing levels are C10's business)
                    let path: Vec<Vec<u8>> = prefix.clone();
                    prefixes.push((path, *id));
                }
            }
        }
        // the version flag of the top level is unknown to a subcommand that declares no version:
        // right of the command name it is judged by the subcommand's parser, which refuses it
        if b.spec.version.is_some() {
            if let Some(ci) = line.origin.iter().position(|o| o.role == Role::CmdName) {
                let end = line
                    .argv
                    .iter()
                    .position(|a| a == b"--")
                    .unwrap_or(line.argv.len());
                if ci < end {
                    let at = rng.range(ci + 1, end);
                    let splits_arg = at > 0 && at < line.origin.len() + 1
                        && line.origin.get(at - 1).map_or(false, |o| o.role == Role::ArgName);
                    if !splits_arg {
                        let mut argv = line.argv.clone();
                        argv.insert(
                            at,
                            if rng.chance(1, 2) {
                                b"--version".to_vec()
                            } else {
                                b"-V".to_vec()
                            },
                        );
                        b.expect_stderr(
                            case,
                            &argv,
                            "version-flag-of-the-top-level-behind-a-command-name",
                            "enclosing-version-answers-for-subcommand",
                            "the subcommand declares no version: an unknown flag there",
                        );
                    }
                }
            }
        }
        for (mut path, id) in prefixes {
            path.push(if rng.chance(1, 2) {
                b"--help".to_vec()
            } else {
                b"-h".to_vec()
            });
            let (out, _) = b.run(case, &path, "help-after-command-path");
            let ok = match &out {
                Outcome::Stdout { text, .. } => {
                    text.contains(&header_of(id))
                        && ids.iter().all(|o| *o == id || !text.contains(&header_of(*o)))
                }
                _ => false,
            };
            if !ok && !matches!(out, Outcome::Panic(_) | Outcome::FuelExhausted) {
                case.rep.violation(
                    &format!("help-describes-wrong-level:{}", out.class()),
                    "help-level",
                    case.index,
                    b.detail(
                        &path,
                        "help-after-command-path",
                        &format!("Stdout with marker {}", header_of(id)),
                        &out,
                    ),
                );
            }
        }
    }
}
