//! Data description of a parser definition (Spec) and of the values it produces (V).
//!
//! A Spec is turned into a real `bpaf::OptionParser<V>` by `build.rs` using only bpaf's public
//! API, and is interpreted by the derivation generator (`deriv.rs`) and the reference
//! recogniser (`model.rs`) which never look at bpaf at all.

use std::fmt::Write;

pub type Id = u32;

impl std::fmt::Display for V {
    fn fmt(&self, f: &mut std::fmt::Formatter<'_>) -> std::fmt::Result {
        f.write_str(&self.show())
    }
}

/// Value domain of every generated parser
#[derive(Clone, Debug, PartialEq, Eq, Hash)]
pub enum V {
    Unit,
    Bool(bool),
    Int(i64),
    /// String / OsString / PathBuf payload, raw bytes
    Bytes(Vec<u8>),
    Tag(u32),
    Opt(Option<Box<V>>),
    List(Vec<V>),
    Tuple(Vec<V>),
    Variant(u32, Box<V>),
    /// value produced by the primitive item (or command) with this id
    Field(Id, Box<V>),
}

impl V {
    pub fn field(id: Id, v: V) -> V {
        V::Field(id, Box::new(v))
    }
    pub fn some(v: V) -> V {
        V::Opt(Some(Box::new(v)))
    }
    pub fn none() -> V {
        V::Opt(None)
    }
    pub fn show(&self) -> String {
        let mut s = String::new();
        self.write(&mut s);
        s
    }
    fn write(&self, s: &mut String) {
        match self {
            V::Unit => s.push_str("()"),
            V::Bool(b) => {
                let _ = write!(s, "{}", b);
            }
            V::Int(i) => {
                let _ = write!(s, "{}", i);
            }
            V::Bytes(b) => {
                let _ = write!(s, "\"{}\"", crate::json::show_bytes(b));
            }
            V::Tag(t) => {
                let _ = write!(s, "#{}", t);
            }
            V::Opt(None) => s.push_str("None"),
            V::Opt(Some(v)) => {
                s.push_str("Some(");
                v.write(s);
                s.push(')');
            }
            V::List(xs) => {
                s.push('[');
                for (i, x) in xs.iter().enumerate() {
                    if i > 0 {
                        s.push_str(", ");
                    }
                    x.write(s);
                }
                s.push(']');
            }
            V::Tuple(xs) => {
                s.push('(');
                for (i, x) in xs.iter().enumerate() {
                    if i > 0 {
                        s.push_str(", ");
                    }
                    x.write(s);
                }
                s.push(')');
            }
            V::Variant(i, v) => {
                let _ = write!(s, "V{}(", i);
                v.write(s);
                s.push(')');
            }
            V::Field(i, v) => {
                let _ = write!(s, "f{}=", i);
                v.write(s);
            }
        }
    }

    /// every `Bytes` payload inside, in order
    pub fn byte_leaves<'a>(&'a self, out: &mut Vec<&'a [u8]>) {
        match self {
            V::Bytes(b) => out.push(b),
            V::Opt(Some(v)) | V::Variant(_, v) | V::Field(_, v) => v.byte_leaves(out),
            V::List(xs) | V::Tuple(xs) => {
                for x in xs {
                    x.byte_leaves(out);
                }
            }
            _ => {}
        }
    }

    /// every (field id, payload) pair inside, in order
    pub fn fields<'a>(&'a self, out: &mut Vec<(Id, &'a V)>) {
        match self {
            V::Field(i, v) => {
                out.push((*i, v));
                v.fields(out);
            }
            V::Opt(Some(v)) | V::Variant(_, v) => v.fields(out),
            V::List(xs) | V::Tuple(xs) => {
                for x in xs {
                    x.fields(out);
                }
            }
            _ => {}
        }
    }
}

/// Fixed predicates used by `guard` and `parse` wrappers: generated valid values never trip them,
/// the corruptors produce values that do.
pub fn trips_guard(v: &V) -> bool {
    match v {
        V::Bytes(b) => b.starts_with(b"bad"),
        V::Int(i) => (900_000..1_000_000).contains(i),
        V::Opt(Some(v)) | V::Variant(_, v) | V::Field(_, v) => trips_guard(v),
        V::List(xs) | V::Tuple(xs) => xs.iter().any(trips_guard),
        _ => false,
    }
}
pub fn trips_parse(v: &V) -> bool {
    match v {
        V::Bytes(b) => b.starts_with(b"unp"),
        V::Int(i) => (800_000..900_000).contains(i),
        V::Opt(Some(v)) | V::Variant(_, v) | V::Field(_, v) => trips_parse(v),
        V::List(xs) | V::Tuple(xs) => xs.iter().any(trips_parse),
        _ => false,
    }
}

#[derive(Clone, Copy, Debug, PartialEq, Eq, Hash)]
pub enum Ty {
    Str,
    Os,
    Path,
    U32,
    I64,
}

impl Ty {
    pub fn is_bytes(self) -> bool {
        matches!(self, Ty::Os | Ty::Path)
    }
    pub fn is_num(self) -> bool {
        matches!(self, Ty::U32 | Ty::I64)
    }
    pub fn rust(self) -> &'static str {
        match self {
            Ty::Str => "String",
            Ty::Os => "OsString",
            Ty::Path => "PathBuf",
            Ty::U32 => "u32",
            Ty::I64 => "i64",
        }
    }
    /// What the conversion yields for these bytes; Err carries bpaf's documented message source
    /// (the FromStr error text) where it is predictable
    pub fn convert(self, raw: &[u8]) -> Result<V, ()> {
        match self {
            Ty::Os | Ty::Path => Ok(V::Bytes(raw.to_vec())),
            Ty::Str => match std::str::from_utf8(raw) {
                Ok(_) => Ok(V::Bytes(raw.to_vec())),
                Err(_) => Err(()),
            },
            Ty::U32 => std::str::from_utf8(raw)
                .ok()
                .and_then(|s| s.parse::<u32>().ok())
                .map(|n| V::Int(i64::from(n)))
                .ok_or(()),
            Ty::I64 => std::str::from_utf8(raw)
                .ok()
                .and_then(|s| s.parse::<i64>().ok())
                .map(V::Int)
                .ok_or(()),
        }
    }
}

#[derive(Clone, Debug, Default, PartialEq, Eq, Hash)]
pub struct Names {
    pub shorts: Vec<char>,
    pub longs: Vec<String>,
    pub envs: Vec<String>,
}

impl Names {
    pub fn short(c: char) -> Names {
        Names {
            shorts: vec![c],
            ..Names::default()
        }
    }
    pub fn long(l: &str) -> Names {
        Names {
            longs: vec![l.to_string()],
            ..Names::default()
        }
    }
    pub fn has_name(&self) -> bool {
        !(self.shorts.is_empty() && self.longs.is_empty())
    }
    /// the spelling help/completion prefers: `--long` if any, else `-s`
    pub fn preferred(&self) -> Option<String> {
        if let Some(l) = self.longs.first() {
            Some(format!("--{}", l))
        } else {
            self.shorts.first().map(|s| format!("-{}", s))
        }
    }
}

#[derive(Clone, Copy, Debug, PartialEq, Eq, Hash)]
pub enum Strict {
    Any,
    Strict,
    NonStrict,
}

#[derive(Clone, Debug, PartialEq, Eq, Hash)]
pub enum Leaf {
    Switch,
    /// flag(Tag(2*id+1), Tag(2*id))
    Flag,
    ReqFlag,
    Arg {
        ty: Ty,
        metavar: String,
        adjacent: bool,
    },
    Pos {
        ty: Ty,
        metavar: String,
        strict: Strict,
    },
    /// `any(metavar, check)`, optionally `.anywhere()`; only the totality check (C04) generates it
    Any {
        metavar: String,
        accept: AnyAccept,
        anywhere: bool,
    },
}

/// which items an `any` parser takes
#[derive(Clone, Debug, PartialEq, Eq, Hash)]
pub enum AnyAccept {
    All,
    Prefix(String),
    Exact(String),
    /// everything that does not start with a dash
    NoDash,
    /// everything except this item
    Not(String),
}

#[derive(Clone, Debug, PartialEq, Eq, Hash)]
pub struct Item {
    pub id: Id,
    pub names: Names,
    pub help: Option<String>,
    pub leaf: Leaf,
}

impl Item {
    pub fn is_flag(&self) -> bool {
        matches!(self.leaf, Leaf::Switch | Leaf::Flag | Leaf::ReqFlag)
    }
    pub fn is_arg(&self) -> bool {
        matches!(self.leaf, Leaf::Arg { .. })
    }
    pub fn is_pos(&self) -> bool {
        matches!(self.leaf, Leaf::Pos { .. })
    }
    pub fn is_named(&self) -> bool {
        !self.is_pos()
    }
    pub fn ty(&self) -> Option<Ty> {
        match &self.leaf {
            Leaf::Arg { ty, .. } | Leaf::Pos { ty, .. } => Some(*ty),
            _ => None,
        }
    }
}

#[derive(Clone, Copy, Debug, PartialEq, Eq, Hash)]
pub enum ShellKind {
    File,
    FileMask,
    Dir,
    DirMask,
    Raw,
    Nothing,
}

#[derive(Clone, Debug, PartialEq, Eq, Hash)]
pub enum W {
    Optional { catch: bool },
    Many { catch: bool },
    Some_ { catch: bool },
    Collect { catch: bool },
    Count,
    Last,
    Fallback,
    FallbackWithOk,
    FallbackWithErr,
    Guard,
    ParseStep,
    Map,
    Hide,
    HideUsage,
    CustomUsage(String),
    GroupHelp(String),
    WithGroupHelp(String),
    /// completer: offers these (value, description) pairs that start with what was typed
    Complete(Vec<(String, Option<String>)>, Option<String>),
    Shell(ShellKind, String),
    Boxed,
}

impl W {
    /// wrappers that repeat the inner parser
    pub fn repeats(&self) -> bool {
        matches!(
            self,
            W::Many { .. } | W::Some_ { .. } | W::Collect { .. } | W::Count | W::Last
        )
    }
    /// wrappers that neither change the value nor when the parser succeeds
    pub fn transparent(&self) -> bool {
        matches!(
            self,
            W::Hide
                | W::HideUsage
                | W::CustomUsage(_)
                | W::GroupHelp(_)
                | W::WithGroupHelp(_)
                | W::Complete(..)
                | W::Shell(..)
                | W::Boxed
        )
    }
}

#[derive(Clone, Debug, PartialEq, Eq, Hash)]
pub enum Spec {
    Item(Item),
    Wrap { w: W, id: Id, inner: Box<Spec> },
    /// `construct!(a, b, c)`
    Seq(Vec<Spec>),
    /// `construct!([a, b, c])`, branch i yields `Variant(i, _)`
    Alt(Vec<Spec>),
    /// `construct!(a, b, c).adjacent()`
    Adj(Vec<Spec>),
    Cmd(Box<CmdSpec>),
    /// `pure(Tag(id))`
    Pure(Id),
    /// `fail(msg)`
    Fail(String),
}

#[derive(Clone, Debug, PartialEq, Eq, Hash)]
pub struct CmdSpec {
    pub id: Id,
    /// first is the name, the rest are hidden long aliases
    pub names: Vec<String>,
    /// first is the visible short alias
    pub shorts: Vec<char>,
    pub help: Option<String>,
    pub adjacent: bool,
    pub opts: OptSpec,
}

#[derive(Clone, Debug, PartialEq, Eq, Hash)]
pub struct OptSpec {
    pub root: Spec,
    pub descr: Option<String>,
    pub header: Option<String>,
    pub footer: Option<String>,
    pub version: Option<String>,
    pub usage: Option<String>,
    pub help_names: Option<Names>,
    pub version_names: Option<Names>,
    pub fallback_to_usage: bool,
    pub max_width: Option<usize>,
    /// `bpaf::cargo_helper(name, parser)` around the root (what `#[bpaf(options("name"))]` makes)
    pub cargo: Option<String>,
}

impl OptSpec {
    pub fn plain(root: Spec) -> OptSpec {
        OptSpec {
            root,
            descr: None,
            header: None,
            footer: None,
            version: None,
            usage: None,
            help_names: None,
            version_names: None,
            fallback_to_usage: false,
            max_width: None,
            cargo: None,
        }
    }
    pub fn help_names(&self) -> Names {
        self.help_names.clone().unwrap_or(Names {
            shorts: vec!['h'],
            longs: vec!["help".to_string()],
            envs: vec![],
        })
    }
    pub fn version_names(&self) -> Names {
        self.version_names.clone().unwrap_or(Names {
            shorts: vec!['V'],
            longs: vec!["version".to_string()],
            envs: vec![],
        })
    }
}

impl Spec {
    pub fn wrap(w: W, id: Id, inner: Spec) -> Spec {
        Spec::Wrap {
            w,
            id,
            inner: Box::new(inner),
        }
    }

    pub fn nodes(&self) -> usize {
        match self {
            Spec::Item(_) | Spec::Pure(_) | Spec::Fail(_) => 1,
            Spec::Wrap { inner, .. } => 1 + inner.nodes(),
            Spec::Seq(xs) | Spec::Alt(xs) | Spec::Adj(xs) => {
                1 + xs.iter().map(Spec::nodes).sum::<usize>()
            }
            Spec::Cmd(c) => 1 + c.opts.root.nodes(),
        }
    }

    /// visit every primitive item of this level (not descending into commands)
    pub fn level_items<'a>(&'a self, out: &mut Vec<&'a Item>) {
        match self {
            Spec::Item(i) => out.push(i),
            Spec::Wrap { inner, .. } => inner.level_items(out),
            Spec::Seq(xs) | Spec::Alt(xs) | Spec::Adj(xs) => {
                for x in xs {
                    x.level_items(out);
                }
            }
            Spec::Cmd(_) | Spec::Pure(_) | Spec::Fail(_) => {}
        }
    }

    /// commands directly reachable from this level
    pub fn level_cmds<'a>(&'a self, out: &mut Vec<&'a CmdSpec>) {
        match self {
            Spec::Cmd(c) => out.push(c),
            Spec::Wrap { inner, .. } => inner.level_cmds(out),
            Spec::Seq(xs) | Spec::Alt(xs) | Spec::Adj(xs) => {
                for x in xs {
                    x.level_cmds(out);
                }
            }
            Spec::Item(_) | Spec::Pure(_) | Spec::Fail(_) => {}
        }
    }

    /// every item at every level
    pub fn all_items<'a>(&'a self, out: &mut Vec<&'a Item>) {
        self.level_items(out);
        let mut cmds = Vec::new();
        self.level_cmds(&mut cmds);
        for c in cmds {
            c.opts.root.all_items(out);
        }
    }

    pub fn pretty(&self) -> String {
        let mut s = String::new();
        self.write(&mut s);
        s
    }

    fn write(&self, s: &mut String) {
        match self {
            Spec::Item(i) => write_item(i, s),
            Spec::Wrap { w, id, inner } => {
                inner.write(s);
                match w {
                    W::Optional { catch } => {
                        s.push_str(".optional()");
                        if *catch {
                            s.push_str(".catch()");
                        }
                    }
                    W::Many { catch } => {
                        s.push_str(".many()");
                        if *catch {
                            s.push_str(".catch()");
                        }
                    }
                    W::Some_ { catch } => {
                        let _ = write!(s, ".some(\"some-{}\")", id);
                        if *catch {
                            s.push_str(".catch()");
                        }
                    }
                    W::Collect { catch } => {
                        s.push_str(".collect::<Vec<_>>()");
                        if *catch {
                            s.push_str(".catch()");
                        }
                    }
                    W::Count => s.push_str(".count()"),
                    W::Last => s.push_str(".last()"),
                    W::Fallback => {
                        let _ = write!(s, ".fallback(#{})", id);
                    }
                    W::FallbackWithOk => {
                        let _ = write!(s, ".fallback_with(|| Ok(#{}))", id);
                    }
                    W::FallbackWithErr => {
                        let _ = write!(s, ".fallback_with(|| Err(\"fbw-{}\"))", id);
                    }
                    W::Guard => {
                        let _ = write!(s, ".guard(ok, \"guard-{}\")", id);
                    }
                    W::ParseStep => {
                        let _ = write!(s, ".parse(step{})", id);
                    }
                    W::Map => {
                        let _ = write!(s, ".map(m{})", id);
                    }
                    W::Hide => s.push_str(".hide()"),
                    W::HideUsage => s.push_str(".hide_usage()"),
                    W::CustomUsage(u) => {
                        let _ = write!(s, ".custom_usage({:?})", u);
                    }
                    W::GroupHelp(h) => {
                        let _ = write!(s, ".group_help({:?})", h);
                    }
                    W::WithGroupHelp(h) => {
                        let _ = write!(s, ".with_group_help(|m| {:?} + m)", h);
                    }
                    W::Complete(vs, g) => {
                        let _ = write!(s, ".complete({:?})", vs);
                        if let Some(g) = g {
                            let _ = write!(s, ".group({:?})", g);
                        }
                    }
                    W::Shell(k, m) => {
                        let _ = write!(s, ".complete_shell({:?} {:?})", k, m);
                    }
                    W::Boxed => s.push_str(".boxed()"),
                }
            }
            Spec::Seq(xs) => write_list("construct!(", ")", xs, s),
            Spec::Alt(xs) => write_list("construct!([", "])", xs, s),
            Spec::Adj(xs) => write_list("construct!(", ").adjacent()", xs, s),
            Spec::Cmd(c) => {
                s.push('{');
                c.opts.write(s);
                let _ = write!(s, "}}.command({:?})", c.names[0]);
                for l in &c.names[1..] {
                    let _ = write!(s, ".long({:?})", l);
                }
                for sh in &c.shorts {
                    let _ = write!(s, ".short({:?})", sh);
                }
                if let Some(h) = &c.help {
                    let _ = write!(s, ".help({:?})", h);
                }
                if c.adjacent {
                    s.push_str(".adjacent()");
                }
            }
            Spec::Pure(id) => {
                let _ = write!(s, "pure(#{})", id);
            }
            Spec::Fail(m) => {
                let _ = write!(s, "fail({:?})", m);
            }
        }
    }
}

fn write_list(open: &str, close: &str, xs: &[Spec], s: &mut String) {
    s.push_str(open);
    for (i, x) in xs.iter().enumerate() {
        if i > 0 {
            s.push_str(", ");
        }
        x.write(s);
    }
    s.push_str(close);
}

fn write_names(n: &Names, s: &mut String) {
    let mut first = true;
    let mut sep = |s: &mut String| {
        if !first {
            s.push('.');
        }
        first = false;
    };
    for c in &n.shorts {
        sep(s);
        let _ = write!(s, "short({:?})", c);
    }
    for l in &n.longs {
        sep(s);
        let _ = write!(s, "long({:?})", l);
    }
    for e in &n.envs {
        sep(s);
        let _ = write!(s, "env({:?})", e);
    }
}

fn write_item(i: &Item, s: &mut String) {
    let _ = write!(s, "[{}]", i.id);
    match &i.leaf {
        Leaf::Pos {
            ty,
            metavar,
            strict,
        } => {
            let _ = write!(s, "positional::<{}>({:?})", ty.rust(), metavar);
            match strict {
                Strict::Any => {}
                Strict::Strict => s.push_str(".strict()"),
                Strict::NonStrict => s.push_str(".non_strict()"),
            }
            if let Some(h) = &i.help {
                let _ = write!(s, ".help({:?})", h);
            }
        }
        Leaf::Any {
            metavar,
            accept,
            anywhere,
        } => {
            let _ = write!(s, "any({:?}, {:?})", metavar, accept);
            if let Some(h) = &i.help {
                let _ = write!(s, ".help({:?})", h);
            }
            if *anywhere {
                s.push_str(".anywhere()");
            }
        }
        leaf => {
            write_names(&i.names, s);
            if let Some(h) = &i.help {
                let _ = write!(s, ".help({:?})", h);
            }
            match leaf {
                Leaf::Switch => s.push_str(".switch()"),
                Leaf::Flag => s.push_str(".flag(P, A)"),
                Leaf::ReqFlag => s.push_str(".req_flag(P)"),
                Leaf::Arg {
                    ty,
                    metavar,
                    adjacent,
                } => {
                    let _ = write!(s, ".argument::<{}>({:?})", ty.rust(), metavar);
                    if *adjacent {
                        s.push_str(".adjacent()");
                    }
                }
                Leaf::Pos { .. } | Leaf::Any { .. } => unreachable!(),
            }
        }
    }
}

impl OptSpec {
    pub fn pretty(&self) -> String {
        let mut s = String::new();
        self.write(&mut s);
        s
    }
    fn write(&self, s: &mut String) {
        if let Some(c) = &self.cargo {
            let _ = write!(s, "cargo_helper({:?}, ", c);
        }
        self.root.write(s);
        if self.cargo.is_some() {
            s.push(')');
        }
        s.push_str(".to_options()");
        if let Some(d) = &self.descr {
            let _ = write!(s, ".descr({:?})", d);
        }
        if let Some(d) = &self.header {
            let _ = write!(s, ".header({:?})", d);
        }
        if let Some(d) = &self.footer {
            let _ = write!(s, ".footer({:?})", d);
        }
        if let Some(d) = &self.version {
            let _ = write!(s, ".version({:?})", d);
        }
        if let Some(d) = &self.usage {
            let _ = write!(s, ".usage({:?})", d);
        }
        if let Some(n) = &self.help_names {
            s.push_str(".help_parser(");
            write_names(n, s);
            s.push(')');
        }
        if let Some(n) = &self.version_names {
            s.push_str(".version_parser(");
            write_names(n, s);
            s.push(')');
        }
        if self.fallback_to_usage {
            s.push_str(".fallback_to_usage()");
        }
        if let Some(w) = self.max_width {
            let _ = write!(s, ".max_width({})", w);
        }
    }

    /// structural hash of the whole definition
    pub fn hash64(&self) -> u64 {
        use std::hash::{Hash, Hasher};
        let mut h = std::collections::hash_map::DefaultHasher::new();
        self.hash(&mut h);
        h.finish()
    }
}

/// One step on the way from the root of a definition down to an item
#[derive(Clone, Debug)]
pub enum PathEl<'a> {
    Wrap(&'a W, Id),
    Seq,
    Alt(usize),
    Adj,
    Cmd(&'a CmdSpec),
}

impl Spec {
    /// path from this spec down to the item with the given id, outermost first
    pub fn path_to(&self, id: Id) -> Option<Vec<PathEl<'_>>> {
        fn go<'a>(s: &'a Spec, id: Id, acc: &mut Vec<PathEl<'a>>) -> bool {
            match s {
                Spec::Item(i) => i.id == id,
                Spec::Wrap { w, id: wid, inner } => {
                    acc.push(PathEl::Wrap(w, *wid));
                    if go(inner, id, acc) {
                        return true;
                    }
                    acc.pop();
                    false
                }
                Spec::Seq(xs) | Spec::Adj(xs) => {
                    acc.push(if matches!(s, Spec::Seq(_)) {
                        PathEl::Seq
                    } else {
                        PathEl::Adj
                    });
                    for x in xs {
                        if go(x, id, acc) {
                            return true;
                        }
                    }
                    acc.pop();
                    false
                }
                Spec::Alt(xs) => {
                    for (ix, x) in xs.iter().enumerate() {
                        acc.push(PathEl::Alt(ix));
                        if go(x, id, acc) {
                            return true;
                        }
                        acc.pop();
                    }
                    false
                }
                Spec::Cmd(c) => {
                    acc.push(PathEl::Cmd(c));
                    if go(&c.opts.root, id, acc) {
                        return true;
                    }
                    acc.pop();
                    false
                }
                Spec::Pure(_) | Spec::Fail(_) => false,
            }
        }
        let mut acc = Vec::new();
        if go(self, id, &mut acc) {
            Some(acc)
        } else {
            None
        }
    }

    pub fn find_item(&self, id: Id) -> Option<&Item> {
        let mut items = Vec::new();
        self.all_items(&mut items);
        items.into_iter().find(|i| i.id == id)
    }

    /// the command with this id, at any level
    pub fn find_cmd(&self, id: Id) -> Option<&CmdSpec> {
        let mut cmds = Vec::new();
        self.level_cmds(&mut cmds);
        for c in cmds {
            if c.id == id {
                return Some(c);
            }
            if let Some(x) = c.opts.root.find_cmd(id) {
                return Some(x);
            }
        }
        None
    }
}
