//! Reference recogniser for the conventional fragment (C01's quantifier).
//!
//! A declarative matcher for the documented surface syntax: it tokenises the vector
//! (`--name`, `--name=v`, `-n`, `-n=v`, `-nv`, clusters of declared letters, words, first `--`),
//! attributes every named occurrence to the item that owns the name, checks every item's
//! arity, assigns words to the positional suffix in declaration order and recurses into the
//! subcommand whose name is the first word of a level that has subcommands. It never "tries"
//! parsers and shares no code with bpaf or with the derivation generator.

use crate::spec::*;
use std::collections::HashMap;

#[derive(Clone, Debug, PartialEq)]
pub enum Verdict {
    Accept(V),
    Reject(String),
    /// outside C01's quantifier (documentation does not fix the behaviour)
    Outside(String),
}

#[derive(Clone, Debug)]
enum Occ {
    Flag,
    Value(Vec<u8>),
}

#[derive(Default, Clone)]
struct NameSet {
    shorts: Vec<char>,
    /// shorts that belong to arguments (take a value)
    arg_shorts: Vec<char>,
    longs: Vec<String>,
}

impl NameSet {
    fn add(&mut self, n: &Names, is_arg: bool) {
        self.shorts.extend(n.shorts.iter().copied());
        if is_arg {
            self.arg_shorts.extend(n.shorts.iter().copied());
        }
        self.longs.extend(n.longs.iter().cloned());
    }
}

enum FieldKind<'a> {
    Named(&'a Item),
    Pos(&'a Item),
    Cmds { cmds: Vec<&'a CmdSpec>, optional: bool },
    Other,
}

fn innermost_item(s: &Spec) -> Option<&Item> {
    match s {
        Spec::Item(i) => Some(i),
        Spec::Wrap { inner, .. } => innermost_item(inner),
        _ => None,
    }
}

fn classify(s: &Spec) -> FieldKind {
    if let Some(i) = innermost_item(s) {
        return if i.is_pos() {
            FieldKind::Pos(i)
        } else {
            FieldKind::Named(i)
        };
    }
    let (alt, optional) = match s {
        Spec::Wrap {
            w: W::Optional { .. },
            inner,
            ..
        } => (&**inner, true),
        other => (other, false),
    };
    if let Spec::Alt(xs) = alt {
        let mut cmds = Vec::new();
        for x in xs {
            if let Spec::Cmd(c) = x {
                cmds.push(&**c);
            } else {
                return FieldKind::Other;
            }
        }
        return FieldKind::Cmds { cmds, optional };
    }
    FieldKind::Other
}

fn all_names(o: &OptSpec, out: &mut NameSet) {
    let mut items = Vec::new();
    o.root.all_items(&mut items);
    for i in items {
        out.add(&i.names, i.is_arg());
    }
}

pub fn recognise(o: &OptSpec, argv: &[Vec<u8>]) -> Verdict {
    let mut everything = NameSet::default();
    all_names(o, &mut everything);
    level(o, argv, &NameSet::default(), &everything)
}

fn is_help_like(o: &OptSpec, item: &[u8]) -> bool {
    let s = String::from_utf8_lossy(item);
    for n in [o.help_names(), o.version_names()] {
        for l in &n.longs {
            if s == format!("--{}", l) || s.starts_with(&format!("--{}=", l)) {
                return true;
            }
        }
        for c in &n.shorts {
            if s.starts_with('-') && !s.starts_with("--") && s[1..].contains(*c) {
                return true;
            }
        }
    }
    false
}

/// an item that bpaf would accept as a detached value: not option-looking
fn word_like(item: &[u8], everything: &NameSet) -> Option<bool> {
    if item == b"--" {
        return Some(false);
    }
    if item.first() != Some(&b'-') || item.len() == 1 {
        return Some(true);
    }
    if item.starts_with(b"--") {
        return Some(false);
    }
    // single dash + one character is a short name; longer ones depend on declared letters
    let s = String::from_utf8_lossy(item);
    if s.chars().count() == 2 || s.contains('=') {
        return Some(false);
    }
    // a cluster made of declared letters is option-looking; with an undeclared letter bpaf
    // treats the whole item as a word, which the quantifier leaves open
    for c in s.chars().skip(1) {
        if everything.arg_shorts.contains(&c) {
            break;
        }
        if !everything.shorts.contains(&c) {
            return None;
        }
    }
    Some(false)
}

fn level(o: &OptSpec, argv: &[Vec<u8>], ancestors: &NameSet, everything: &NameSet) -> Verdict {
    let fields = match &o.root {
        Spec::Seq(xs) => xs,
        _ => return Verdict::Outside("root is not a sequence".into()),
    };
    let kinds: Vec<FieldKind> = fields.iter().map(classify).collect();
    if kinds.iter().any(|k| matches!(k, FieldKind::Other)) {
        return Verdict::Outside("field outside the conventional fragment".into());
    }

    // name tables of this level
    let mut shorts: HashMap<char, usize> = HashMap::new();
    let mut longs: HashMap<String, usize> = HashMap::new();
    let mut mine = NameSet::default();
    for (ix, k) in kinds.iter().enumerate() {
        if let FieldKind::Named(i) = k {
            for c in &i.names.shorts {
                shorts.insert(*c, ix);
            }
            for l in &i.names.longs {
                longs.insert(l.clone(), ix);
            }
            mine.add(&i.names, i.is_arg());
        }
    }
    let is_flag = |ix: usize| matches!(&kinds[ix], FieldKind::Named(i) if i.is_flag());
    let cmd_field = kinds
        .iter()
        .position(|k| matches!(k, FieldKind::Cmds { .. }));
    let has_pos = kinds.iter().any(|k| matches!(k, FieldKind::Pos(_)));

    let mut occs: Vec<Vec<Occ>> = vec![Vec::new(); fields.len()];
    let mut words: Vec<Vec<u8>> = Vec::new();
    let mut cmd_value: Option<V> = None;
    let mut pos_only = false;

    let mut i = 0;
    while i < argv.len() {
        let item = &argv[i];
        if pos_only {
            words.push(item.clone());
            i += 1;
            continue;
        }
        if item == b"--" {
            pos_only = true;
            i += 1;
            continue;
        }
        if is_help_like(o, item) {
            return Verdict::Outside("help/version item".into());
        }
        if item.starts_with(b"--") {
            let body = &item[2..];
            let (name, value) = match body.iter().position(|b| *b == b'=') {
                Some(p) => (&body[..p], Some(body[p + 1..].to_vec())),
                None => (body, None),
            };
            let name = match std::str::from_utf8(name) {
                Ok(n) => n.to_string(),
                Err(_) => return Verdict::Outside("non-utf8 name".into()),
            };
            match longs.get(&name) {
                Some(&ix) => {
                    if is_flag(ix) {
                        if value.is_some() {
                            return Verdict::Reject(format!("--{} is a flag, got a value", name));
                        }
                        occs[ix].push(Occ::Flag);
                        i += 1;
                    } else if let Some(v) = value {
                        occs[ix].push(Occ::Value(v));
                        i += 1;
                    } else {
                        match argv.get(i + 1).map(|n| word_like(n, everything)) {
                            Some(Some(true)) => {
                                occs[ix].push(Occ::Value(argv[i + 1].clone()));
                                i += 2;
                            }
                            Some(None) => {
                                return Verdict::Outside("value looks like a cluster".into())
                            }
                            _ => {
                                return Verdict::Reject(format!("--{} requires a value", name));
                            }
                        }
                    }
                }
                None => {
                    if ancestors.longs.contains(&name) {
                        return Verdict::Outside("enclosing option right of command".into());
                    }
                    return Verdict::Reject(format!("--{} is not declared at this level", name));
                }
            }
            continue;
        }
        if item.len() > 1 && item[0] == b'-' {
            let body = match std::str::from_utf8(&item[1..]) {
                Ok(b) => b,
                Err(_) => return Verdict::Outside("non-utf8 short item".into()),
            };
            let chars: Vec<char> = body.chars().collect();
            // -n=value
            if chars.len() >= 2 && chars[1] == '=' {
                let c = chars[0];
                let value: String = chars[2..].iter().collect();
                match shorts.get(&c) {
                    Some(&ix) => {
                        if is_flag(ix) {
                            return Verdict::Reject(format!("-{} is a flag, got a value", c));
                        }
                        occs[ix].push(Occ::Value(value.into_bytes()));
                        i += 1;
                        continue;
                    }
                    None => {
                        if ancestors.shorts.contains(&c) {
                            return Verdict::Outside("enclosing option right of command".into());
                        }
                        return Verdict::Reject(format!("-{} is not declared at this level", c));
                    }
                }
            }
            if chars.contains(&'=') {
                return Verdict::Outside("cluster with =".into());
            }
            if chars.len() > 1 {
                // multi-character: carve-out when a letter in front of the first argument
                // letter is declared nowhere (what follows an argument letter is its value)
                for c in &chars {
                    if everything.arg_shorts.contains(c) {
                        break;
                    }
                    if !everything.shorts.contains(c) {
                        return Verdict::Outside("cluster with an undeclared letter".into());
                    }
                }
            }
            // walk the letters
            let mut consumed_next = false;
            let mut k = 0;
            while k < chars.len() {
                let c = chars[k];
                match shorts.get(&c) {
                    Some(&ix) if is_flag(ix) => {
                        occs[ix].push(Occ::Flag);
                        k += 1;
                    }
                    Some(&ix) => {
                        let rest: String = chars[k + 1..].iter().collect();
                        if rest.is_empty() {
                            match argv.get(i + 1).map(|n| word_like(n, everything)) {
                                Some(Some(true)) => {
                                    occs[ix].push(Occ::Value(argv[i + 1].clone()));
                                    consumed_next = true;
                                }
                                Some(None) => {
                                    return Verdict::Outside("value looks like a cluster".into())
                                }
                                _ => {
                                    return Verdict::Reject(format!("-{} requires a value", c));
                                }
                            }
                        } else {
                            occs[ix].push(Occ::Value(rest.into_bytes()));
                        }
                        k = chars.len();
                    }
                    None => {
                        if ancestors.shorts.contains(&c) {
                            return Verdict::Outside("enclosing option right of command".into());
                        }
                        // when the first letter is some other level's argument the rest of the
                        // item is its value, either way nothing at this level accepts it
                        return Verdict::Reject(format!("-{} is not declared at this level", c));
                    }
                }
            }
            i += if consumed_next { 2 } else { 1 };
            continue;
        }
        // a plain word
        if let Some(cf) = cmd_field {
            if let FieldKind::Cmds { cmds, .. } = &kinds[cf] {
                let w = String::from_utf8_lossy(item).to_string();
                let hit = cmds.iter().find(|c| {
                    c.names.contains(&w) || c.shorts.iter().any(|s| s.to_string() == w)
                });
                if has_pos && hit.is_none() {
                    words.push(item.clone());
                    i += 1;
                    continue;
                }
                match hit {
                    Some(c) => {
                        let mut anc = ancestors.clone();
                        anc.shorts.extend(mine.shorts.iter().copied());
                        anc.arg_shorts.extend(mine.arg_shorts.iter().copied());
                        anc.longs.extend(mine.longs.iter().cloned());
                        match level(&c.opts, &argv[i + 1..], &anc, everything) {
                            Verdict::Accept(v) => {
                                cmd_value = Some(V::field(c.id, v));
                                i = argv.len();
                                continue;
                            }
                            other => return other,
                        }
                    }
                    None => {
                        return Verdict::Reject(format!("{} is not a command of this level", w));
                    }
                }
            }
        }
        words.push(item.clone());
        i += 1;
    }

    // arity, conversion, positional assignment in declaration order
    let mut vals = Vec::new();
    let mut wi = 0;
    for (ix, k) in kinds.iter().enumerate() {
        match k {
            FieldKind::Named(_) => match eval(&fields[ix], &occs[ix]) {
                Ok(v) => vals.push(v),
                Err(e) => return Verdict::Reject(e),
            },
            FieldKind::Pos(_) => {
                let take = pos_take(&fields[ix], words.len() - wi);
                let mine: Vec<Occ> = words[wi..wi + take]
                    .iter()
                    .map(|w| Occ::Value(w.clone()))
                    .collect();
                wi += take;
                match eval(&fields[ix], &mine) {
                    Ok(v) => vals.push(v),
                    Err(e) => return Verdict::Reject(e),
                }
            }
            FieldKind::Cmds { cmds, optional } => match &cmd_value {
                Some(v) => {
                    let which = cmds
                        .iter()
                        .position(|c| matches!(v, V::Field(id, _) if *id == c.id))
                        .unwrap();
                    let v = V::Variant(which as u32, Box::new(v.clone()));
                    vals.push(if *optional { V::some(v) } else { v });
                }
                None => {
                    if *optional {
                        vals.push(V::none());
                    } else {
                        return Verdict::Reject("a command is required".into());
                    }
                }
            },
            FieldKind::Other => unreachable!(),
        }
    }
    if wi < words.len() {
        return Verdict::Reject(format!(
            "surplus word {}",
            String::from_utf8_lossy(&words[wi])
        ));
    }
    Verdict::Accept(V::Tuple(vals))
}

/// how many of the available words a positional field takes
fn pos_take(s: &Spec, avail: usize) -> usize {
    match s {
        Spec::Item(_) => avail.min(1),
        Spec::Wrap { w, inner, .. } => match w {
            W::Many { .. } | W::Some_ { .. } | W::Collect { .. } | W::Count | W::Last => avail,
            _ => pos_take(inner, avail),
        },
        _ => 0,
    }
}

fn absent(s: &Spec) -> Option<V> {
    match s {
        Spec::Item(i) => match i.leaf {
            Leaf::Switch => Some(V::field(i.id, V::Bool(false))),
            Leaf::Flag => Some(V::field(i.id, V::Tag(2 * i.id))),
            _ => None,
        },
        Spec::Wrap { w, id, inner } => {
            let a = absent(inner);
            match w {
                W::Optional { .. } => Some(a.map_or(V::none(), V::some)),
                W::Many { .. } | W::Collect { .. } => {
                    Some(V::List(a.into_iter().collect::<Vec<V>>()))
                }
                W::Some_ { .. } => a.map(|v| V::List(vec![v])),
                W::Count => Some(V::Int(i64::from(a.is_some()))),
                W::Fallback | W::FallbackWithOk => Some(a.unwrap_or(V::Tag(*id))),
                W::ParseStep | W::Map => a.map(|v| V::Tuple(vec![V::Tag(*id), v])),
                _ => a,
            }
        }
        _ => None,
    }
}

fn eval(s: &Spec, occs: &[Occ]) -> Result<V, String> {
    match s {
        Spec::Item(i) => {
            let one = |occs: &[Occ]| -> Result<Option<Occ>, String> {
                match occs.len() {
                    0 => Ok(None),
                    1 => Ok(Some(occs[0].clone())),
                    n => Err(format!("item {} given {} times", i.id, n)),
                }
            };
            match &i.leaf {
                Leaf::Switch => Ok(V::field(i.id, V::Bool(one(occs)?.is_some()))),
                Leaf::Flag => Ok(V::field(
                    i.id,
                    V::Tag(2 * i.id + u32::from(one(occs)?.is_some())),
                )),
                Leaf::ReqFlag => match one(occs)? {
                    Some(_) => Ok(V::field(i.id, V::Unit)),
                    None => Err(format!("item {} is required", i.id)),
                },
                Leaf::Any { .. } => Err("`any` is not modelled".into()),
                Leaf::Arg { ty, .. } | Leaf::Pos { ty, .. } => match one(occs)? {
                    Some(Occ::Value(b)) => ty
                        .convert(&b)
                        .map(|v| V::field(i.id, v))
                        .map_err(|()| format!("item {}: value does not convert", i.id)),
                    Some(Occ::Flag) => Err("flag occurrence for an argument".into()),
                    None => Err(format!("item {} is required", i.id)),
                },
            }
        }
        Spec::Wrap { w, id, inner } => {
            let each = |occs: &[Occ]| -> Result<Vec<V>, String> {
                occs.iter()
                    .map(|o| eval(inner, std::slice::from_ref(o)))
                    .collect()
            };
            match w {
                W::Optional { .. } => {
                    if occs.is_empty() {
                        absent(s).ok_or_else(|| "absent".to_string())
                    } else {
                        Ok(V::some(eval(inner, occs)?))
                    }
                }
                W::Many { .. } | W::Collect { .. } => {
                    if occs.is_empty() {
                        absent(s).ok_or_else(|| "absent".to_string())
                    } else {
                        Ok(V::List(each(occs)?))
                    }
                }
                W::Some_ { .. } => {
                    if occs.is_empty() {
                        absent(s).ok_or_else(|| format!("some {} needs an occurrence", id))
                    } else {
                        Ok(V::List(each(occs)?))
                    }
                }
                W::Count => {
                    if occs.is_empty() {
                        absent(s).ok_or_else(|| "absent".to_string())
                    } else {
                        Ok(V::Int(each(occs)?.len() as i64))
                    }
                }
                W::Last => {
                    if occs.is_empty() {
                        eval(inner, occs)
                    } else {
                        Ok(each(occs)?.pop().unwrap())
                    }
                }
                W::Fallback | W::FallbackWithOk => {
                    if occs.is_empty() {
                        absent(s).ok_or_else(|| "absent".to_string())
                    } else {
                        eval(inner, occs)
                    }
                }
                W::FallbackWithErr => eval(inner, occs),
                W::Guard => {
                    let v = eval(inner, occs)?;
                    if trips_guard(&v) {
                        Err(format!("guard {} fails", id))
                    } else {
                        Ok(v)
                    }
                }
                W::ParseStep => {
                    let v = eval(inner, occs)?;
                    if trips_parse(&v) {
                        Err(format!("parse {} fails", id))
                    } else {
                        Ok(V::Tuple(vec![V::Tag(*id), v]))
                    }
                }
                W::Map => Ok(V::Tuple(vec![V::Tag(*id), eval(inner, occs)?])),
                _ => eval(inner, occs),
            }
        }
        _ => Err("not a conventional field".into()),
    }
}
