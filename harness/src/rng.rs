//! Deterministic PRNG (SplitMix64 seeding a xoshiro256**), no external crates.

#[derive(Clone, Debug)]
pub struct Rng {
    s: [u64; 4],
}

pub fn splitmix(x: &mut u64) -> u64 {
    *x = x.wrapping_add(0x9E37_79B9_7F4A_7C15);
    let mut z = *x;
    z = (z ^ (z >> 30)).wrapping_mul(0xBF58_476D_1CE4_E5B9);
    z = (z ^ (z >> 27)).wrapping_mul(0x94D0_49BB_1331_11EB);
    z ^ (z >> 31)
}

/// FNV-1a, used to mix strings (property ids) into seeds and to hash cases
pub fn fnv(bytes: &[u8]) -> u64 {
    let mut h: u64 = 0xcbf2_9ce4_8422_2325;
    for b in bytes {
        h ^= u64::from(*b);
        h = h.wrapping_mul(0x0000_0100_0000_01B3);
    }
    h
}

pub fn mix(parts: &[u64]) -> u64 {
    let mut x = 0x1234_5678_9abc_def0u64;
    let mut out = 0u64;
    for p in parts {
        x ^= *p;
        out = splitmix(&mut x) ^ out.rotate_left(17);
    }
    out
}

impl Rng {
    pub fn new(seed: u64) -> Self {
        let mut x = seed;
        let s = [
            splitmix(&mut x),
            splitmix(&mut x),
            splitmix(&mut x),
            splitmix(&mut x),
        ];
        Rng { s }
    }

    /// Per-case generator: depends only on (seed, property, case index, stream)
    pub fn for_case(seed: u64, prop: &str, case: u64, stream: u64) -> Self {
        Rng::new(mix(&[seed, fnv(prop.as_bytes()), case, stream]))
    }

    pub fn next(&mut self) -> u64 {
        let result = self.s[1].wrapping_mul(5).rotate_left(7).wrapping_mul(9);
        let t = self.s[1] << 17;
        self.s[2] ^= self.s[0];
        self.s[3] ^= self.s[1];
        self.s[1] ^= self.s[2];
        self.s[0] ^= self.s[3];
        self.s[2] ^= t;
        self.s[3] = self.s[3].rotate_left(45);
        result
    }

    /// uniform in 0..n (n > 0)
    pub fn below(&mut self, n: usize) -> usize {
        debug_assert!(n > 0);
        (self.next() % (n as u64)) as usize
    }

    /// uniform in lo..=hi
    pub fn range(&mut self, lo: usize, hi: usize) -> usize {
        lo + self.below(hi - lo + 1)
    }

    /// true with probability num/den
    pub fn chance(&mut self, num: usize, den: usize) -> bool {
        self.below(den) < num
    }

    pub fn pick<'a, T>(&mut self, xs: &'a [T]) -> &'a T {
        &xs[self.below(xs.len())]
    }

    pub fn shuffle<T>(&mut self, xs: &mut [T]) {
        for i in (1..xs.len()).rev() {
            let j = self.below(i + 1);
            xs.swap(i, j);
        }
    }

    /// pick an index according to integer weights
    pub fn weighted(&mut self, weights: &[usize]) -> usize {
        let total: usize = weights.iter().sum();
        let mut x = self.below(total.max(1));
        for (i, w) in weights.iter().enumerate() {
            if x < *w {
                return i;
            }
            x -= *w;
        }
        weights.len() - 1
    }
}
