//! Spec -> real `bpaf::OptionParser<V>`, through bpaf's public API only.
//!
//! Sequential / parallel / adjacent composition goes through the real `construct!` macro so the
//! macro's evaluation order and fail-fast behaviour are what runs.

use crate::spec::*;
use bpaf::parsers::NamedArg;
use bpaf::*;
use std::cell::RefCell;
use std::collections::HashMap;
use std::ffi::OsString;
use std::os::unix::ffi::OsStringExt;
use std::path::PathBuf;

pub type P = Box<dyn Parser<V>>;

/// how many times a completion function given to `Parser::complete` was called (C20: a run
/// without a completion request does not call it - the builds without the feature have none)
pub static COMPLETER_CALLS: std::sync::atomic::AtomicU64 = std::sync::atomic::AtomicU64::new(0);

thread_local! {
    static INTERN: RefCell<HashMap<String, &'static str>> = RefCell::new(HashMap::new());
}

/// bpaf wants `&'static str` for names and metavars: intern (leak once per distinct string)
pub fn leak(s: &str) -> &'static str {
    INTERN.with(|m| {
        let mut m = m.borrow_mut();
        if let Some(v) = m.get(s) {
            return *v;
        }
        let v: &'static str = Box::leak(s.to_string().into_boxed_str());
        m.insert(s.to_string(), v);
        v
    })
}

/// Help given as a `Doc` built with the Doc API: `{{doc:X}}` in the text becomes a nested
/// document (a literal `X`) between the surrounding text
pub fn help_doc(s: &str) -> Doc {
    let mut d = Doc::default();
    if s == EMPTY_DOC {
        return d;
    }
    let mut rest = s;
    loop {
        // `{{doc:X}}` - a nested document, `{{lit:X}}` / `{{emp:X}}` / `{{inv:X}}` - a literal,
        // emphasised or invalid token of the same document
        let found = ["{{doc:", "{{lit:", "{{emp:", "{{inv:"]
            .iter()
            .filter_map(|t| rest.find(t).map(|i| (i, *t)))
            .min();
        let (i, tag) = match found {
            Some(x) => x,
            None => break,
        };
        let j = match rest[i..].find("}}") {
            Some(j) => i + j,
            None => break,
        };
        if i > 0 {
            d.text(&rest[..i]);
        }
        let body = &rest[i + 6..j];
        match tag {
            "{{doc:" => {
                let mut n = Doc::default();
                n.literal(body);
                d.doc(&n);
            }
            "{{lit:" => d.literal(body),
            "{{emp:" => d.emphasis(body),
            _ => d.invalid(body),
        }
        rest = &rest[j + 2..];
    }
    d.text(rest);
    d
}

/// does the text ask for a help built with the Doc API
pub fn wants_doc(s: &str) -> bool {
    s.contains("{{doc:")
        || s.contains("{{lit:")
        || s.contains("{{emp:")
        || s.contains("{{inv:")
        || s == EMPTY_DOC
}

/// a title computed at run time that turns out empty: `group_help(Doc::default())`
pub const EMPTY_DOC: &str = "{{empty-doc}}";

fn named(n: &Names, help: &Option<String>) -> NamedArg {
    let mut res: Option<NamedArg> = None;
    for c in &n.shorts {
        res = Some(match res {
            None => short(*c),
            Some(r) => r.short(*c),
        });
    }
    for l in &n.longs {
        let l = leak(l);
        res = Some(match res {
            None => long(l),
            Some(r) => r.long(l),
        });
    }
    for e in &n.envs {
        let e = leak(e);
        res = Some(match res {
            None => env(e),
            Some(r) => r.env(e),
        });
    }
    let mut res = res.expect("item without any name");
    if let Some(h) = help {
        res = if wants_doc(h) {
            res.help(help_doc(h))
        } else {
            res.help(h.as_str())
        };
    }
    res
}

fn os_bytes(os: OsString) -> Vec<u8> {
    os.into_vec()
}

fn build_item(i: &Item) -> P {
    let id = i.id;
    match &i.leaf {
        Leaf::Switch => named(&i.names, &i.help)
            .switch()
            .map(move |b| V::field(id, V::Bool(b)))
            .boxed(),
        Leaf::Flag => named(&i.names, &i.help)
            .flag(V::Tag(2 * id + 1), V::Tag(2 * id))
            .map(move |t| V::field(id, t))
            .boxed(),
        Leaf::ReqFlag => named(&i.names, &i.help)
            .req_flag(V::Unit)
            .map(move |t| V::field(id, t))
            .boxed(),
        Leaf::Arg {
            ty,
            metavar,
            adjacent,
        } => {
            // the help text goes on the name (`long(..).help(..).argument(..)`) or, for every other
            // item, on the finished argument parser (`..argument(..).adjacent().help(..)`): both
            // builder orders make the same parser
            let help_last = id % 2 == 0 && i.help.is_some();
            let n = if help_last {
                named(&i.names, &None)
            } else {
                named(&i.names, &i.help)
            };
            let mv = leak(metavar);
            macro_rules! arg {
                ($t:ty, $f:expr) => {{
                    let mut a = n.argument::<$t>(mv);
                    if *adjacent {
                        a = a.adjacent();
                    }
                    if help_last {
                        let h = i.help.as_ref().unwrap();
                        a = if wants_doc(h) {
                            a.help(help_doc(h))
                        } else {
                            a.help(h.as_str())
                        };
                    }
                    a.map(move |x| V::field(id, $f(x))).boxed()
                }};
            }
            match ty {
                Ty::Str => arg!(String, |x: String| V::Bytes(x.into_bytes())),
                Ty::Os => arg!(OsString, |x: OsString| V::Bytes(os_bytes(x))),
                Ty::Path => arg!(PathBuf, |x: PathBuf| V::Bytes(os_bytes(x.into_os_string()))),
                Ty::U32 => arg!(u32, |x: u32| V::Int(i64::from(x))),
                Ty::I64 => arg!(i64, V::Int),
            }
        }
        Leaf::Pos {
            ty,
            metavar,
            strict,
        } => {
            let mv = leak(metavar);
            macro_rules! pos {
                ($t:ty, $f:expr) => {{
                    let mut a = positional::<$t>(mv);
                    if let Some(h) = &i.help {
                        a = if wants_doc(h) {
                            a.help(help_doc(h))
                        } else {
                            a.help(h.as_str())
                        };
                    }
                    match strict {
                        Strict::Any => {}
                        Strict::Strict => a = a.strict(),
                        Strict::NonStrict => a = a.non_strict(),
                    }
                    // a primitive parser shared between two places is a clone of the first one
                    if id % 2 == 1 {
                        a = a.clone();
                    }
                    a.map(move |x| V::field(id, $f(x))).boxed()
                }};
            }
            match ty {
                Ty::Str => pos!(String, |x: String| V::Bytes(x.into_bytes())),
                Ty::Os => pos!(OsString, |x: OsString| V::Bytes(os_bytes(x))),
                Ty::Path => pos!(PathBuf, |x: PathBuf| V::Bytes(os_bytes(x.into_os_string()))),
                Ty::U32 => pos!(u32, |x: u32| V::Int(i64::from(x))),
                Ty::I64 => pos!(i64, V::Int),
            }
        }
        Leaf::Any {
            metavar,
            accept,
            anywhere,
        } => {
            let mv = leak(metavar);
            let accept = accept.clone();
            let mut a = any::<OsString, _, _>(mv, move |x: OsString| {
                let b = os_bytes(x);
                let ok = match &accept {
                    AnyAccept::All => true,
                    AnyAccept::Prefix(p) => b.starts_with(p.as_bytes()),
                    AnyAccept::Exact(e) => b == e.as_bytes(),
                    AnyAccept::NoDash => !b.starts_with(b"-"),
                    AnyAccept::Not(e) => b != e.as_bytes(),
                };
                if ok {
                    Some(V::field(id, V::Bytes(b)))
                } else {
                    None
                }
            });
            if let Some(h) = &i.help {
                a = a.help(h.as_str());
            }
            if *anywhere {
                a = a.anywhere();
            }
            a.boxed()
        }
    }
}

pub const STRICT_STEP_BASE: Id = 100_000;

fn has_tag(v: &V) -> bool {
    match v {
        V::Tag(_) => true,
        V::Opt(Some(v)) | V::Variant(_, v) | V::Field(_, v) => has_tag(v),
        V::List(xs) | V::Tuple(xs) => xs.iter().any(has_tag),
        _ => false,
    }
}

pub fn guard_msg(id: Id) -> String {
    format!("guard-{}-failed", id)
}
pub fn parse_msg(id: Id) -> String {
    format!("step-{}-failed", id)
}
pub fn some_msg(id: Id) -> String {
    format!("some-{}-needs-one", id)
}
pub fn fbw_msg(id: Id) -> String {
    format!("fallback-with-{}-failed", id)
}

fn build_wrap(w: &W, id: Id, inner: &Spec) -> P {
    let p = build(inner);
    match w {
        W::Optional { catch } => {
            let o = p.optional();
            let o = if *catch { o.catch() } else { o };
            o.map(|v| V::Opt(v.map(Box::new))).boxed()
        }
        W::Many { catch } => {
            let o = p.many();
            let o = if *catch { o.catch() } else { o };
            o.map(V::List).boxed()
        }
        W::Some_ { catch } => {
            let o = p.some(leak(&some_msg(id)));
            let o = if *catch { o.catch() } else { o };
            o.map(V::List).boxed()
        }
        W::Collect { catch } => {
            let o = p.collect::<Vec<V>>();
            let o = if *catch { o.catch() } else { o };
            o.map(V::List).boxed()
        }
        W::Count => p.count().map(|n| V::Int(n as i64)).boxed(),
        W::Last => p.last().boxed(),
        // a third of the fallbacks show their value in the help (`[default: ..]`), another third
        // with the Debug rendering: the parser they make is the same
        W::Fallback => match id % 3 {
            0 => p.fallback(V::Tag(id)).display_fallback().boxed(),
            1 => p.fallback(V::Tag(id)).debug_fallback().boxed(),
            _ => p.fallback(V::Tag(id)).boxed(),
        },
        W::FallbackWithOk => p
            .fallback_with(move || Ok::<V, String>(V::Tag(id)))
            .boxed(),
        W::FallbackWithErr => p.fallback_with(move || Err::<V, String>(fbw_msg(id))).boxed(),
        // ids from STRICT_STEP_BASE on (only the feature-comparison corpus makes them) also reject
        // the value a `fallback` underneath supplies
        W::Guard => p
            .guard(
                move |v| !(trips_guard(v) || (id >= STRICT_STEP_BASE && has_tag(v))),
                leak(&guard_msg(id)),
            )
            .boxed(),
        W::ParseStep => p
            .parse(move |v| {
                if trips_parse(&v) || (id >= STRICT_STEP_BASE && has_tag(&v)) {
                    Err(parse_msg(id))
                } else {
                    Ok(V::Tuple(vec![V::Tag(id), v]))
                }
            })
            .boxed(),
        W::Map => p.map(move |v| V::Tuple(vec![V::Tag(id), v])).boxed(),
        W::Hide => p.hide().boxed(),
        W::HideUsage => p.hide_usage().boxed(),
        W::CustomUsage(u) => p.custom_usage(u.as_str()).boxed(),
        W::GroupHelp(h) => {
            if wants_doc(h) {
                p.group_help(help_doc(h)).boxed()
            } else {
                p.group_help(h.as_str()).boxed()
            }
        }
        W::WithGroupHelp(h) => {
            let h = h.clone();
            p.with_group_help(move |meta| {
                let mut d = Doc::default();
                d.text(&h);
                d.text(" ");
                d.meta(meta, true);
                d
            })
            .boxed()
        }
        #[cfg(feature = "ac")]
        W::Complete(vals, group) => {
            let vals = vals.clone();
            let c = p.complete(move |_v: &V| {
                COMPLETER_CALLS.fetch_add(1, std::sync::atomic::Ordering::SeqCst);
                vals.clone()
            });
            match group {
                Some(g) => c.group(g.clone()).boxed(),
                None => c.boxed(),
            }
        }
        #[cfg(feature = "ac")]
        W::Shell(kind, mask) => {
            let m = leak(mask);
            let op = match kind {
                ShellKind::File => ShellComp::File { mask: None },
                ShellKind::FileMask => ShellComp::File { mask: Some(m) },
                ShellKind::Dir => ShellComp::Dir { mask: None },
                ShellKind::DirMask => ShellComp::Dir { mask: Some(m) },
                ShellKind::Raw => ShellComp::Raw {
                    bash: leak(&format!("raw_bash {}", mask)),
                    zsh: leak(&format!("raw_zsh {}", mask)),
                    fish: leak(&format!("raw_fish {}", mask)),
                    elvish: leak(&format!("raw_elvish {}", mask)),
                },
                ShellKind::Nothing => ShellComp::Nothing,
            };
            p.complete_shell(op).boxed()
        }
        #[cfg(not(feature = "ac"))]
        W::Complete(..) | W::Shell(..) => p,
        W::Boxed => p.boxed(),
    }
}

macro_rules! pop_all {
    ($ps:ident; $($n:ident),*) => {
        let mut it = $ps.into_iter();
        $(let $n = it.next().unwrap();)*
    };
}

/// `construct!(a, b, ..)` over boxed parsers, 0..=12 fields
fn seq(ps: Vec<P>, adjacent: bool) -> P {
    macro_rules! go {
        ($($n:ident),*) => {{
            pop_all!(ps; $($n),*);
            let c = construct!($($n),*);
            if adjacent {
                c.adjacent().map(|($($n),*)| V::Tuple(vec![$($n),*])).boxed()
            } else {
                c.map(|($($n),*)| V::Tuple(vec![$($n),*])).boxed()
            }
        }};
    }
    match ps.len() {
        0 => pure(V::Tuple(vec![])).boxed(),
        1 => {
            pop_all!(ps; a);
            // construct!(a) is `a.boxed()`: no ParseCon, so no adjacent()
            construct!(a).map(|a| V::Tuple(vec![a])).boxed()
        }
        2 => go!(a, b),
        3 => go!(a, b, c),
        4 => go!(a, b, c, d),
        5 => go!(a, b, c, d, e),
        6 => go!(a, b, c, d, e, f),
        7 => go!(a, b, c, d, e, f, g),
        8 => go!(a, b, c, d, e, f, g, h),
        9 => go!(a, b, c, d, e, f, g, h, i),
        10 => go!(a, b, c, d, e, f, g, h, i, j),
        11 => go!(a, b, c, d, e, f, g, h, i, j, k),
        12 => go!(a, b, c, d, e, f, g, h, i, j, k, l),
        n => panic!("harness: sequence of {} fields not supported", n),
    }
}

/// `construct!([a, b, ..])`
fn alt(ps: Vec<P>) -> P {
    macro_rules! go {
        ($($n:ident),*) => {{
            pop_all!(ps; $($n),*);
            construct!([$($n),*]).boxed()
        }};
    }
    match ps.len() {
        0 => panic!("harness: empty alternative"),
        1 => go!(a),
        2 => go!(a, b),
        3 => go!(a, b, c),
        4 => go!(a, b, c, d),
        5 => go!(a, b, c, d, e),
        6 => go!(a, b, c, d, e, f),
        n => panic!("harness: alternative of {} branches not supported", n),
    }
}

pub fn build(spec: &Spec) -> P {
    match spec {
        Spec::Item(i) => build_item(i),
        Spec::Wrap { w, id, inner } => build_wrap(w, *id, inner),
        Spec::Seq(xs) => seq(xs.iter().map(build).collect(), false),
        Spec::Adj(xs) => {
            assert!(xs.len() >= 2, "harness: adjacent group needs two fields");
            seq(xs.iter().map(build).collect(), true)
        }
        Spec::Alt(xs) => alt(xs
            .iter()
            .enumerate()
            .map(|(i, x)| {
                let i = i as u32;
                build(x).map(move |v| V::Variant(i, Box::new(v))).boxed()
            })
            .collect()),
        Spec::Cmd(c) => {
            let id = c.id;
            let mut cmd = build_options(&c.opts).command(leak(&c.names[0]));
            for l in &c.names[1..] {
                cmd = cmd.long(leak(l));
            }
            for s in &c.shorts {
                cmd = cmd.short(*s);
            }
            if let Some(h) = &c.help {
                cmd = cmd.help(h.as_str());
            }
            if c.adjacent {
                cmd = cmd.adjacent();
            }
            cmd.map(move |v| V::field(id, v)).boxed()
        }
        Spec::Pure(id) => pure(V::Tag(*id)).boxed(),
        Spec::Fail(m) => fail::<V>(leak(m)).boxed(),
    }
}

pub fn build_options(o: &OptSpec) -> OptionParser<V> {
    let mut p = match &o.cargo {
        Some(c) => bpaf::cargo_helper(leak(c), build(&o.root)).to_options(),
        None => build(&o.root).to_options(),
    };
    if let Some(d) = &o.descr {
        p = p.descr(d.as_str());
    }
    if let Some(d) = &o.header {
        p = p.header(d.as_str());
    }
    if let Some(d) = &o.footer {
        p = p.footer(d.as_str());
    }
    if let Some(d) = &o.version {
        p = p.version(d.as_str());
    }
    if let Some(d) = &o.usage {
        p = p.usage(d.as_str());
    }
    if let Some(n) = &o.help_names {
        p = p.help_parser(named(n, &Some("custom help".to_string())));
    }
    if let Some(n) = &o.version_names {
        p = p.version_parser(named(n, &Some("custom version".to_string())));
    }
    if o.fallback_to_usage {
        p = p.fallback_to_usage();
    }
    if let Some(w) = o.max_width {
        p = p.max_width(w);
    }
    p
}
