//! Running the real parser under `catch_unwind` (+ hooks when compiled with `--cfg bpaf_verif`)
//! and normalising what comes back.

use crate::spec::V;
use bpaf::{Args, Doc, OptionParser, ParseFailure};
use std::cell::RefCell;
use std::ffi::OsString;
use std::os::unix::ffi::OsStringExt;
use std::panic::{catch_unwind, AssertUnwindSafe};

#[derive(Clone, Debug)]
pub enum Outcome {
    Value(V),
    Stdout { text: String, full: bool },
    Stderr { text: String },
    Completion(String),
    Panic(String),
    FuelExhausted,
}

impl PartialEq for Outcome {
    fn eq(&self, other: &Self) -> bool {
        match (self, other) {
            (Outcome::Value(a), Outcome::Value(b)) => a == b,
            (Outcome::Stdout { text: a, full: fa }, Outcome::Stdout { text: b, full: fb }) => {
                a == b && fa == fb
            }
            (Outcome::Stderr { text: a }, Outcome::Stderr { text: b }) => a == b,
            (Outcome::Completion(a), Outcome::Completion(b)) => a == b,
            (Outcome::Panic(a), Outcome::Panic(b)) => a == b,
            (Outcome::FuelExhausted, Outcome::FuelExhausted) => true,
            _ => false,
        }
    }
}

impl Outcome {
    pub fn class(&self) -> &'static str {
        match self {
            Outcome::Value(_) => "value",
            Outcome::Stdout { .. } => "stdout",
            Outcome::Stderr { .. } => "stderr",
            Outcome::Completion(_) => "completion",
            Outcome::Panic(_) => "panic",
            Outcome::FuelExhausted => "fuel",
        }
    }
    pub fn is_value(&self) -> bool {
        matches!(self, Outcome::Value(_))
    }
    pub fn is_stderr(&self) -> bool {
        matches!(self, Outcome::Stderr { .. })
    }
    pub fn is_stdout(&self) -> bool {
        matches!(self, Outcome::Stdout { .. })
    }
    pub fn same_class(&self, other: &Outcome) -> bool {
        self.class() == other.class()
    }
    pub fn show(&self) -> String {
        match self {
            Outcome::Value(v) => format!("Ok({})", v.show()),
            Outcome::Stdout { text, full } => format!("Stdout(full={}, {:?})", full, clip(text)),
            Outcome::Stderr { text } => format!("Stderr({:?})", clip(text)),
            Outcome::Completion(t) => format!("Completion({:?})", clip(t)),
            Outcome::Panic(m) => format!("PANIC({:?})", clip(m)),
            Outcome::FuelExhausted => "FUEL-EXHAUSTED".to_string(),
        }
    }
}

pub fn clip(s: &str) -> String {
    if s.len() > 600 {
        let mut end = 600;
        while !s.is_char_boundary(end) {
            end -= 1;
        }
        format!("{}...[{} bytes]", &s[..end], s.len())
    } else {
        s.to_string()
    }
}

/// What the hooks saw during one run
#[derive(Clone, Debug, Default)]
pub struct Hooks {
    pub ticks: u64,
    pub ledger_checks: u64,
    pub ledger_mismatch: Vec<String>,
    pub remove_ignored: u64,
    /// (depth, scope, ledger) of every accept event, outermost last
    pub accepts: Vec<(usize, (usize, usize), Vec<u8>)>,
    pub enabled: bool,
}

thread_local! {
    static LAST_PANIC: RefCell<Option<String>> = RefCell::new(None);
}

/// Install a panic hook that records the message instead of printing it
pub fn install_panic_hook() {
    std::panic::set_hook(Box::new(|info| {
        let msg = if let Some(s) = info.payload().downcast_ref::<&str>() {
            (*s).to_string()
        } else if let Some(s) = info.payload().downcast_ref::<String>() {
            s.clone()
        } else {
            "<non-string panic payload>".to_string()
        };
        let loc = info
            .location()
            .map(|l| format!("{}:{}", l.file(), l.line()))
            .unwrap_or_default();
        LAST_PANIC.with(|p| *p.borrow_mut() = Some(format!("{} @ {}", msg, loc)));
    }));
}

fn take_panic() -> String {
    LAST_PANIC
        .with(|p| p.borrow_mut().take())
        .unwrap_or_else(|| "<unknown panic>".to_string())
}

#[derive(Clone, Debug, Default)]
pub struct RunOpts {
    pub name: Option<String>,
    pub comp: Option<usize>,
    /// step budget for the fuel hook, 0 - unlimited
    pub fuel: u64,
}

pub fn to_os(argv: &[Vec<u8>]) -> Vec<OsString> {
    argv.iter().map(|a| OsString::from_vec(a.clone())).collect()
}

/// Run something under catch_unwind with hooks armed
pub fn guarded<R>(fuel: u64, f: impl FnOnce() -> R) -> (Result<R, Outcome>, Hooks) {
    #[cfg(bpaf_verif)]
    bpaf::verif::reset(fuel);
    let _ = fuel;
    let res = catch_unwind(AssertUnwindSafe(f));
    #[allow(unused_mut)]
    let mut hooks = Hooks::default();
    #[cfg(bpaf_verif)]
    {
        let rep = bpaf::verif::take();
        hooks.enabled = true;
        hooks.ticks = rep.ticks;
        hooks.ledger_checks = rep.ledger_checks;
        for e in rep.events {
            match e {
                bpaf::verif::Event::LedgerMismatch { .. }
                | bpaf::verif::Event::ShapeMismatch { .. } => {
                    hooks.ledger_mismatch.push(format!("{:?}", e));
                }
                bpaf::verif::Event::Accept {
                    depth,
                    scope,
                    ledger,
                } => hooks.accepts.push((depth, scope, ledger)),
                bpaf::verif::Event::RemoveIgnored { .. } => hooks.remove_ignored += 1,
            }
        }
    }
    match res {
        Ok(r) => (Ok(r), hooks),
        Err(payload) => {
            #[cfg(bpaf_verif)]
            if payload.downcast_ref::<bpaf::verif::FuelExhausted>().is_some() {
                let _ = take_panic();
                return (Err(Outcome::FuelExhausted), hooks);
            }
            drop(payload);
            (Err(Outcome::Panic(take_panic())), hooks)
        }
    }
}

pub fn normalise(r: Result<V, ParseFailure>) -> (Outcome, Option<Doc>) {
    match r {
        Ok(v) => (Outcome::Value(v), None),
        Err(ParseFailure::Stdout(doc, full)) => (
            Outcome::Stdout {
                text: doc.monochrome(full),
                full,
            },
            Some(doc),
        ),
        Err(ParseFailure::Stderr(doc)) => (
            Outcome::Stderr {
                text: doc.monochrome(true),
            },
            Some(doc),
        ),
        Err(ParseFailure::Completion(s)) => (Outcome::Completion(s), None),
    }
}

/// Run the parser on a byte-string vector; everything is observed at `run_inner`
pub fn run_full(
    parser: &OptionParser<V>,
    argv: &[Vec<u8>],
    opts: &RunOpts,
) -> (Outcome, Option<Doc>, Hooks) {
    let os = to_os(argv);
    let (res, hooks) = guarded(opts.fuel, || {
        let mut args = Args::from(os.as_slice());
        if let Some(n) = &opts.name {
            args = args.set_name(n);
        }
        #[cfg(feature = "ac")]
        if let Some(rev) = opts.comp {
            args = args.set_comp(rev);
        }
        // normalisation renders the Doc, which is part of what must not panic
        normalise(parser.run_inner(args))
    });
    match res {
        Ok((o, d)) => (o, d, hooks),
        Err(o) => (o, None, hooks),
    }
}

/// step budget for runs whose caller has no better estimate: a run that needs more steps than
/// this on the short lines used there is reported as not terminating (`FuelExhausted`)
pub const DEFAULT_FUEL: u64 = 200_000_000;

pub fn run(parser: &OptionParser<V>, argv: &[Vec<u8>]) -> Outcome {
    run_full(
        parser,
        argv,
        &RunOpts {
            fuel: DEFAULT_FUEL,
            ..RunOpts::default()
        },
    )
    .0
}

pub fn run_hooked(parser: &OptionParser<V>, argv: &[Vec<u8>], fuel: u64) -> (Outcome, Hooks) {
    let (o, _, h) = run_full(
        parser,
        argv,
        &RunOpts {
            fuel,
            ..RunOpts::default()
        },
    );
    (o, h)
}
