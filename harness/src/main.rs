//! bpaf-harness: runtime-monitoring harness for pacak/bpaf (see /verif/DESIGN.md)
#![allow(clippy::too_many_lines)]
#![allow(dead_code)]
#![allow(unexpected_cfgs)]

mod json;
mod rng;
mod spec;

mod build;
#[cfg(feature = "full")]
mod child;
mod deriv;
mod emit;
mod gen;
#[cfg(feature = "full")]
mod model;
mod outcome;
mod props;
#[cfg(feature = "full")]
mod witness;

use std::io::{Seek, SeekFrom, Write};

fn arg_value(args: &[String], key: &str) -> Option<String> {
    args.iter()
        .position(|a| a == key)
        .and_then(|i| args.get(i + 1).cloned())
}

fn cmd_run(args: &[String]) -> i32 {
    let prop = arg_value(args, "--prop").expect("--prop");
    let seed: u64 = arg_value(args, "--seed").map_or(0, |s| s.parse().expect("seed"));
    let shard = arg_value(args, "--shard").unwrap_or_else(|| "0/1".to_string());
    let (k, n) = shard.split_once('/').expect("--shard k/n");
    let (k, n): (u64, u64) = (k.parse().unwrap(), n.parse().unwrap());
    let cases: u64 = arg_value(args, "--cases").map_or(100, |s| s.parse().expect("cases"));
    let tier = arg_value(args, "--tier").unwrap_or_else(|| "quick".to_string());
    let out = arg_value(args, "--out");
    let only: Option<u64> = arg_value(args, "--only-case").map(|s| s.parse().expect("case"));
    let verbose = args.iter().any(|a| a == "--verbose");

    outcome::install_panic_hook();

    let mut rep = props::Report::default();
    let mut progress = out
        .as_ref()
        .map(|o| std::fs::File::create(format!("{}.progress", o)).expect("progress file"));

    let started = std::time::Instant::now();
    let mut done = 0u64;
    let indices: Box<dyn Iterator<Item = u64>> = match only {
        Some(c) => Box::new(std::iter::once(c)),
        None => Box::new((0..cases).filter(move |i| i % n == k)),
    };
    for index in indices {
        if let Some(f) = progress.as_mut() {
            // call event before invoking the library: a shard that dies is attributable
            let _ = f.seek(SeekFrom::Start(0));
            let _ = write!(f, "BEGIN {:020}\n", index);
        }
        let mut case = props::Case {
            prop: &prop,
            seed,
            index,
            thorough: tier == "thorough",
            verbose,
            rep: &mut rep,
        };
        props::run_case(&mut case);
        done += 1;
    }
    if let Some(f) = progress.as_mut() {
        let _ = f.seek(SeekFrom::Start(0));
        let _ = write!(f, "DONE  {:020}\n", done);
    }

    let j = rep
        .to_json()
        .set("prop", prop.as_str())
        .set("seed", seed)
        .set("shard", k)
        .set("nshards", n)
        .set("cases_done", done)
        .set("hooks", cfg!(bpaf_verif))
        .set("wall_s", started.elapsed().as_secs_f64());
    match &out {
        Some(o) => {
            std::fs::write(format!("{}.json", o), j.render()).expect("write summary");
            let mut bytes = Vec::with_capacity(rep.hashes.len() * 8);
            for h in &rep.hashes {
                bytes.extend_from_slice(&h.to_le_bytes());
            }
            std::fs::write(format!("{}.hashes", o), bytes).expect("write hashes");
            let mut bytes = Vec::with_capacity(rep.definitions.len() * 8);
            for h in &rep.definitions {
                bytes.extend_from_slice(&h.to_le_bytes());
            }
            std::fs::write(format!("{}.defs", o), bytes).expect("write defs");
        }
        None => {
            eprintln!("{}", j.render());
        }
    }
    if verbose {
        for v in &rep.violations {
            eprintln!(
                "VIOLATION-DETAIL signature={} clause={} case={}\n{}",
                v.signature,
                v.clause,
                v.case,
                v.detail.render()
            );
        }
        eprintln!(
            "replay verdict: {}",
            if rep.violation_count > 0 {
                "VIOLATED"
            } else {
                "held"
            }
        );
    }
    i32::from(rep.violation_count > 0)
}

/// count distinct u64 across files of little-endian u64s
fn cmd_merge(args: &[String]) -> i32 {
    let mut all: Vec<u64> = Vec::new();
    for f in args {
        if let Ok(bytes) = std::fs::read(f) {
            for c in bytes.chunks_exact(8) {
                all.push(u64::from_le_bytes(c.try_into().unwrap()));
            }
        }
    }
    all.sort_unstable();
    all.dedup();
    println!("{}", all.len());
    0
}

fn main() {
    #[cfg(feature = "full")]
    if let Some(code) = child::maybe_child() {
        std::process::exit(code);
    }
    let args: Vec<String> = std::env::args().skip(1).collect();
    let code = match args.first().map(String::as_str) {
        Some("run") => cmd_run(&args[1..]),
        Some("merge") => cmd_merge(&args[1..]),
        // prints the static completion stub of a trivial program called `my-app` and exits (the
        // stub is printed by bpaf itself, which ends the process)
        Some("stub") => {
            use bpaf::Parser;
            let style = args.get(1).cloned().unwrap_or_else(|| "bash".into());
            let p = bpaf::short('a').switch().to_options();
            let item: &'static str =
                Box::leak(format!("--bpaf-complete-style-{}", style).into_boxed_str());
            let items: &'static [&'static str] = Box::leak(vec![item].into_boxed_slice());
            let _ = p.run_inner(bpaf::Args::from(items).set_name("my-app"));
            3
        }
        Some("emit") => emit::cmd_emit(&args[1..]),
        Some("emit-witness") => {
            outcome::install_panic_hook();
            match args.get(1).and_then(|n| emit::witness(n)) {
                Some(true) => {
                    eprintln!("REPRODUCES");
                    10
                }
                Some(false) => {
                    eprintln!("does not reproduce");
                    0
                }
                None => {
                    eprintln!("unknown witness");
                    3
                }
            }
        }
        #[cfg(feature = "full")]
        Some("witness") => {
            outcome::install_panic_hook();
            match args.get(1).and_then(|n| witness::run(n)) {
                Some(true) => {
                    eprintln!("REPRODUCES");
                    10
                }
                Some(false) => {
                    eprintln!("does not reproduce");
                    0
                }
                None => {
                    eprintln!("unknown witness");
                    3
                }
            }
        }
        _ => {
            eprintln!("usage: bpaf-harness run|merge ...");
            2
        }
    };
    std::process::exit(code);
}
