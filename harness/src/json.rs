//! Minimal JSON value + writer (the harness only ever writes JSON; the Python driver reads it).

use std::fmt::Write;

#[derive(Clone, Debug, PartialEq)]
pub enum J {
    Null,
    Bool(bool),
    Int(i64),
    Float(f64),
    Str(String),
    Arr(Vec<J>),
    Obj(Vec<(String, J)>),
}

impl J {
    pub fn obj() -> J {
        J::Obj(Vec::new())
    }
    pub fn set(mut self, k: &str, v: impl Into<J>) -> J {
        if let J::Obj(xs) = &mut self {
            xs.push((k.to_string(), v.into()));
        }
        self
    }
    pub fn put(&mut self, k: &str, v: impl Into<J>) {
        if let J::Obj(xs) = self {
            xs.push((k.to_string(), v.into()));
        }
    }
    pub fn render(&self) -> String {
        let mut s = String::new();
        self.write(&mut s);
        s
    }
    fn write(&self, out: &mut String) {
        match self {
            J::Null => out.push_str("null"),
            J::Bool(b) => out.push_str(if *b { "true" } else { "false" }),
            J::Int(i) => {
                let _ = write!(out, "{}", i);
            }
            J::Float(f) => {
                if f.is_finite() {
                    let _ = write!(out, "{}", f);
                } else {
                    out.push_str("null");
                }
            }
            J::Str(s) => write_str(out, s),
            J::Arr(xs) => {
                out.push('[');
                for (i, x) in xs.iter().enumerate() {
                    if i > 0 {
                        out.push(',');
                    }
                    x.write(out);
                }
                out.push(']');
            }
            J::Obj(xs) => {
                out.push('{');
                for (i, (k, v)) in xs.iter().enumerate() {
                    if i > 0 {
                        out.push(',');
                    }
                    write_str(out, k);
                    out.push(':');
                    v.write(out);
                }
                out.push('}');
            }
        }
    }
}

fn write_str(out: &mut String, s: &str) {
    out.push('"');
    for c in s.chars() {
        match c {
            '"' => out.push_str("\\\""),
            '\\' => out.push_str("\\\\"),
            '\n' => out.push_str("\\n"),
            '\r' => out.push_str("\\r"),
            '\t' => out.push_str("\\t"),
            c if (c as u32) < 0x20 => {
                let _ = write!(out, "\\u{:04x}", c as u32);
            }
            c => out.push(c),
        }
    }
    out.push('"');
}

impl From<bool> for J {
    fn from(v: bool) -> J {
        J::Bool(v)
    }
}
impl From<i64> for J {
    fn from(v: i64) -> J {
        J::Int(v)
    }
}
impl From<u64> for J {
    fn from(v: u64) -> J {
        J::Int(v as i64)
    }
}
impl From<usize> for J {
    fn from(v: usize) -> J {
        J::Int(v as i64)
    }
}
impl From<u32> for J {
    fn from(v: u32) -> J {
        J::Int(i64::from(v))
    }
}
impl From<f64> for J {
    fn from(v: f64) -> J {
        J::Float(v)
    }
}
impl From<&str> for J {
    fn from(v: &str) -> J {
        J::Str(v.to_string())
    }
}
impl From<String> for J {
    fn from(v: String) -> J {
        J::Str(v)
    }
}
impl From<&String> for J {
    fn from(v: &String) -> J {
        J::Str(v.clone())
    }
}
impl<T: Into<J>> From<Vec<T>> for J {
    fn from(v: Vec<T>) -> J {
        J::Arr(v.into_iter().map(Into::into).collect())
    }
}
impl<T: Into<J>> From<Option<T>> for J {
    fn from(v: Option<T>) -> J {
        match v {
            Some(v) => v.into(),
            None => J::Null,
        }
    }
}

/// Render a byte string for humans: printable ASCII as is, everything else as \xNN
pub fn show_bytes(b: &[u8]) -> String {
    let mut s = String::new();
    for &c in b {
        if (0x20..0x7f).contains(&c) && c != b'\\' {
            s.push(c as char);
        } else {
            let _ = write!(s, "\\x{:02x}", c);
        }
    }
    s
}

pub fn show_argv(argv: &[Vec<u8>]) -> J {
    J::Arr(argv.iter().map(|a| J::Str(show_bytes(a))).collect())
}
