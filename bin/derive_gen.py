#!/usr/bin/env python3
"""C17 case generator: emits a Rust crate in which every generated type carries
`#[derive(Bpaf)]` *and* a hand-written combinator equivalent produced by an independent
implementation of the documented derive rules (src/params.rs "Derive usage",
_documentation::_2_derive_api), plus a runner that feeds both parsers the same vectors and
reports every disagreement.

usage: derive_gen.py <seed> <n_types> <out_dir>
"""
import json
import os
import random
import sys

TYPES = ["String", "u32", "i64", "PathBuf", "OsString"]
WORDS = ["alpha", "bravo", "dry_run", "level2", "out_dir", "jobs", "verbose_mode", "x_y_z",
         "input", "no_color", "target", "kilo", "lima", "mike", "file_name", "max_depth"]
VARIANTS = ["Alpha", "DryRun", "Level2", "OutDir", "Jobs", "VerboseMode", "Input", "NoColor",
            "TargetDir", "Kilo", "Lima", "MikeNovember", "Zulu", "MaxZone", "QuietX", "YankeeZ"]
LETTERS = "abcdefgijklmnopqrstuwxyz"
NONASCII_LETTERS = ["ß", "ε", "λ", "é", "я"]
CHUNK_BREAK = "\x00chunk-break"
# Rust keywords usable as raw identifiers: `r#type: T` is the option `--type` / `-t`
RAW = ["type", "loop", "match", "move", "where"]


def rid(name):
    """identifier as written in Rust source"""
    return "r#" + name if name in RAW else name


def kebab(ident):
    """documented conversion: snake_case / CamelCase -> kebab-case"""
    out = []
    for i, c in enumerate(ident):
        if c == "_":
            out.append("-")
        elif c.isupper():
            if i > 0 and out and out[-1] != "-":
                out.append("-")
            out.append(c.lower())
        else:
            out.append(c)
    return "".join(out).strip("-")


def rust_str(s):
    return '"' + s.replace("\\", "\\\\").replace('"', '\\"').replace("\n", "\\n") + '"'


class Names:
    """allocator that keeps names unique inside one parser"""

    def __init__(self, rng):
        self.rng = rng
        self.used_long = set(["help", "version"])
        self.used_short = set(["h", "V"])
        self.idents = set()

    def ident(self, allow_raw=True):
        for _ in range(100):
            w = self.rng.choice(WORDS)
            if self.rng.random() < 0.3:
                w = w + str(self.rng.randint(1, 9))
            elif allow_raw and self.rng.random() < 0.08:
                w = self.rng.choice(RAW)
            if w not in self.idents and kebab(w) not in self.used_long:
                self.idents.add(w)
                return w
        raise RuntimeError("out of identifiers")

    def short_ident(self):
        # a one-character name is a short name, whatever the character (`ε: f64`)
        if self.rng.random() < 0.3:
            for c in self.rng.sample(NONASCII_LETTERS, len(NONASCII_LETTERS)):
                if c not in self.idents and c not in self.used_short:
                    self.idents.add(c)
                    return c
        for c in LETTERS:
            if c not in self.idents and c not in self.used_short:
                self.idents.add(c)
                return c
        return None

    def take_long(self, l):
        if l in self.used_long:
            return False
        self.used_long.add(l)
        return True

    def take_short(self, c):
        if c in self.used_short:
            return False
        self.used_short.add(c)
        return True

    def fresh_short(self):
        cs = [c for c in LETTERS + LETTERS.upper() if c not in self.used_short and c != "H"]
        c = self.rng.choice(cs)
        self.used_short.add(c)
        return c

    def fresh_long(self):
        for _ in range(100):
            l = kebab(self.rng.choice(WORDS)) + "-" + self.rng.choice(["a", "b", "x", "alt"])
            if self.take_long(l):
                return l
        raise RuntimeError("out of long names")


class Field:
    def __init__(self):
        self.name = None        # identifier, None for tuple fields
        self.base = "String"    # inner type
        self.shape = "plain"    # plain | option | vec
        self.naming = []        # [("short", None|c) | ("long", None|s)]
        self.env = []           # environment variables, in declaration order
        self.consumer = None    # None | ("argument", meta, turbofish) | ("positional", meta) | ("switch",) | ("flag", p, a) | ("req_flag", v)
        self.post = []          # [("optional",) ("many",) ("some", msg) ("fallback", lit) ("guard", fn, msg) ("hide",) ("hide_usage",) ("group_help", s) ("count",) ("last",) ("catch",)]
        self.doc = None
        self.rust_ty = None

    # ---- what the user can type (resolved by the documented naming rules)
    def names(self):
        shorts, longs = [], []
        if self.name is None:
            return shorts, longs
        if not self.naming:
            if len(self.name) == 1:
                shorts.append(self.name)
            else:
                longs.append(kebab(self.name))
        for kind, arg in self.naming:
            if kind == "short":
                shorts.append(arg if arg else self.name[0])
            else:
                longs.append(arg if arg else kebab(self.name))
        return shorts, longs

    def is_positional(self):
        if self.consumer and self.consumer[0] == "positional":
            return True
        if self.consumer:
            return False
        return self.name is None

    def kind(self):
        """flag | reqflag | arg | pos"""
        if self.consumer:
            c = self.consumer[0]
            return {"argument": "arg", "positional": "pos", "switch": "flag", "flag": "flag",
                    "req_flag": "reqflag"}[c]
        if self.base == "bool":
            return "flag"
        if self.base == "()":
            return "reqflag"
        return "pos" if self.name is None else "arg"

    def arity(self):
        """required | optional | many | some | count"""
        for p in self.post:
            if p[0] in ("optional", "fallback"):
                return "optional"
            if p[0] == "many":
                return "many"
            if p[0] == "some":
                return "some"
            if p[0] == "count":
                return "many"
            if p[0] == "last":
                return "some"
        if self.shape == "option":
            return "optional"
        if self.shape == "vec":
            return "many"
        if self.kind() == "flag":
            return "optional"
        return "required"

    # ---- derive source
    def derive_src(self, indent):
        ann = []
        for kind, arg in self.naming:
            if arg is None:
                ann.append(kind)
            elif kind == "short":
                ann.append("short('%s')" % arg)
            else:
                ann.append("long(%s)" % rust_str(arg))
        for e in self.env:
            ann.append("env(%s)" % rust_str(e))
        if self.consumer:
            c = self.consumer
            if c[0] == "argument":
                tf = "::<%s>" % self.base if c[2] else ""
                ann.append("argument%s(%s)" % (tf, rust_str(c[1])) if c[1] is not None else "argument%s" % tf)
            elif c[0] == "positional":
                ann.append("positional(%s)" % rust_str(c[1]) if c[1] is not None else "positional")
            elif c[0] == "switch":
                ann.append("switch")
            elif c[0] == "flag":
                ann.append("flag(%s, %s)" % (c[1], c[2]))
            elif c[0] == "req_flag":
                ann.append("req_flag(%s)" % c[1])
        for p in self.post:
            if p[0] in ("optional", "many", "hide", "hide_usage", "count", "last", "catch"):
                ann.append(p[0])
            elif p[0] == "some":
                ann.append("some(%s)" % rust_str(p[1]))
            elif p[0] == "fallback":
                ann.append("fallback(%s)" % p[1])
            elif p[0] == "guard":
                ann.append("guard(%s, %s)" % (p[1], rust_str(p[2])))
            elif p[0] == "group_help":
                ann.append("group_help(%s)" % rust_str(p[1]))
            elif p[0] == "custom_usage":
                ann.append("custom_usage(%s)" % rust_str(p[1]))
        out = ""
        if self.doc:
            for l in self.doc:
                out += "%s/// %s\n" % (indent, l)
        if ann:
            out += "%s#[bpaf(%s)]\n" % (indent, ", ".join(ann))
        if self.name is None:
            out += "%s%s,\n" % (indent, self.rust_ty)
        else:
            out += "%s%s: %s,\n" % (indent, rid(self.name), self.rust_ty)
        return out

    # ---- hand-written equivalent, following the documented rules
    def manual_src(self):
        shorts, longs = self.names()
        help_s = "\n".join(self.doc) if self.doc else None
        kind = self.kind()
        if kind == "pos":
            meta = "ARG"
            if self.consumer and self.consumer[0] == "positional" and self.consumer[1] is not None:
                meta = self.consumer[1]
            e = "positional::<%s>(%s)" % (self.base, rust_str(meta))
            if help_s is not None:
                e += ".help(%s)" % rust_str(help_s)
        else:
            # names in the order the annotations were written (rule 4/5), env after them
            parts = []
            if not self.naming:
                if len(self.name) == 1:
                    parts.append("short('%s')" % self.name)
                else:
                    parts.append("long(%s)" % rust_str(kebab(self.name)))
            for k, arg in self.naming:
                if k == "short":
                    parts.append("short('%s')" % (arg if arg else self.name[0]))
                else:
                    parts.append("long(%s)" % rust_str(arg if arg else kebab(self.name)))
            for e in self.env:
                parts.append("env(%s)" % rust_str(e))
            e = ".".join(parts)
            if help_s is not None:
                e += ".help(%s)" % rust_str(help_s)
            if kind == "flag":
                if self.consumer and self.consumer[0] == "flag":
                    e += ".flag(%s, %s)" % (self.consumer[1], self.consumer[2])
                else:
                    e += ".switch()"
            elif kind == "reqflag":
                v = self.consumer[1] if self.consumer else "()"
                e += ".req_flag(%s)" % v
            else:
                meta = "ARG"
                if self.consumer and self.consumer[0] == "argument" and self.consumer[1] is not None:
                    meta = self.consumer[1]
                e += ".argument::<%s>(%s)" % (self.base, rust_str(meta))
        explicit_shape = any(p[0] in ("optional", "many", "some", "count", "last", "catch")
                             for p in self.post)
        if not explicit_shape:
            if self.shape == "option":
                e += ".optional()"
            elif self.shape == "vec":
                e += ".many()"
        for p in self.post:
            if p[0] in ("optional", "many", "hide", "hide_usage", "count", "last", "catch"):
                e += ".%s()" % p[0]
            elif p[0] == "some":
                e += ".some(%s)" % rust_str(p[1])
            elif p[0] == "fallback":
                e += ".fallback(%s)" % p[1]
            elif p[0] == "guard":
                e += ".guard(%s, %s)" % (p[1], rust_str(p[2]))
            elif p[0] == "group_help":
                e += ".group_help(%s)" % rust_str(p[1])
            elif p[0] == "custom_usage":
                e += ".custom_usage(%s)" % rust_str(p[1])
        return e


def lit_for(base, rng, n):
    if base == "String":
        return "String::from(%s)" % rust_str("dflt%d" % n)
    if base in ("u32", "i64", "usize", "u8"):
        return str(rng.randint(0, 99))
    if base == "PathBuf":
        return "PathBuf::from(%s)" % rust_str("dflt%d" % n)
    if base == "OsString":
        return "OsString::from(%s)" % rust_str("dflt%d" % n)
    raise ValueError(base)


def gen_named_field(rng, names, tag):
    f = Field()
    r = rng.random()
    f.name = names.ident() if r > 0.12 else (names.short_ident() or names.ident())
    k = rng.random()
    if k < 0.22:
        f.base = "bool"
    elif k < 0.27:
        f.base = "()"
    else:
        f.base = rng.choice(TYPES)
        s = rng.random()
        f.shape = "plain" if s < 0.45 else ("option" if s < 0.75 else "vec")
    # naming annotations (rules 1-5)
    n = rng.random()
    if n < 0.45:
        pass
    elif n < 0.55:
        f.naming = [("short", None)]
    elif n < 0.65:
        f.naming = [("long", None)]
    elif n < 0.75:
        f.naming = [("short", None), ("long", None)]
    elif n < 0.85:
        f.naming = [("short", names.fresh_short()), ("long", None)]
    elif n < 0.93:
        f.naming = [("long", names.fresh_long())]
    else:
        f.naming = [("short", None), ("long", None), ("short", names.fresh_short()),
                    ("long", names.fresh_long())]
    # resolve and reserve the derived names; fall back to explicit fresh ones on collision
    fixed = []
    if not f.naming:
        if len(f.name) == 1:
            if not names.take_short(f.name):
                f.naming = [("short", names.fresh_short())]
        elif not names.take_long(kebab(f.name)):
            f.naming = [("long", names.fresh_long())]
    for kind, arg in f.naming:
        if arg is not None:
            fixed.append((kind, arg))
            continue
        if kind == "short":
            fixed.append((kind, None) if names.take_short(f.name[0]) else (kind, names.fresh_short()))
        else:
            fixed.append((kind, None) if names.take_long(kebab(f.name)) else (kind, names.fresh_long()))
    f.naming = fixed
    # explicit consumers
    if f.base not in ("bool", "()") and rng.random() < 0.3:
        f.consumer = ("argument", "META%s" % tag if rng.random() < 0.8 else None,
                      rng.random() < 0.3 and f.shape == "plain")
    elif f.base == "bool" and rng.random() < 0.2:
        f.consumer = ("switch",)
    elif f.base == "()" and rng.random() < 0.3:
        f.consumer = ("req_flag", "()")
    elif f.base not in ("bool", "()") and f.shape == "plain" and f.base in ("u32", "i64") and rng.random() < 0.12:
        f.consumer = ("flag", "7", "3")
    # post processing
    if f.base not in ("bool", "()") and not (f.consumer and f.consumer[0] == "flag"):
        p = rng.random()
        if f.shape == "plain" and p < 0.2:
            f.post.append(("fallback", lit_for(f.base, rng, rng.randint(1, 99))))
        elif f.shape == "plain" and f.base in ("u32", "i64") and p < 0.3:
            f.post.append(("guard", "small_%s" % f.base, "value is too big %s" % tag))
        elif f.shape == "vec" and p < 0.25:
            f.post.append(("some", "need one %s" % tag))
        elif f.shape == "option" and p < 0.2:
            f.post.append(("optional",))
            if rng.random() < 0.4:
                f.post.append(("catch",))
        elif f.shape == "vec" and p < 0.35:
            f.post.append(("many",))
    # the macro refuses to guess a consumer next to shape-changing annotations
    if any(p[0] in ("optional", "many", "some", "catch") for p in f.post) and f.consumer is None:
        f.consumer = ("argument", "META%s" % tag if rng.random() < 0.7 else None, False)
    if f.base == "()" and rng.random() < 0.3:
        # counted flag: `#[bpaf(req_flag(()), count)] v: usize`
        f.consumer = ("req_flag", "()")
        f.post.append(("count",))
        f.rust_ty = "usize"
    if rng.random() < 0.08:
        f.post.append(("hide",))
    elif rng.random() < 0.08:
        f.post.append(("hide_usage",))
    elif rng.random() < 0.08:
        f.post.append(("group_help", "group %s" % tag))
    elif rng.random() < 0.1:
        # shows whether decorations sit outside the implicit optional/many: `CU` vs `[CU]...`
        f.post.append(("custom_usage", "CU_%s" % tag))
    if rng.random() < 0.6:
        f.doc = ["help for %s" % tag]
        if rng.random() < 0.2:
            f.doc.append("second line of %s" % tag)
    # one or two environment variables (never set while the comparison runs: the item is simply
    # absent, help shows the first one)
    if f.kind() in ("arg", "flag") and rng.random() < 0.15:
        f.env = ["BPAF_VERIF_DERIVE_%s" % tag.upper()]
        if rng.random() < 0.5:
            f.env.append("BPAF_VERIF_DERIVE_%s_B" % tag.upper())
    if f.rust_ty is None:
        inner = f.base
        if inner == "bool" and rng.random() < 0.3:
            # `bool` written through a path is still a switch
            inner = rng.choice(["::core::primitive::bool", "std::primitive::bool"])
        f.rust_ty = {"plain": inner, "option": "Option<%s>" % inner, "vec": "Vec<%s>" % inner}[f.shape]
    return f


def gen_pos_field(rng, tag, shape, named=None):
    f = Field()
    f.name = named
    f.base = rng.choice(TYPES)
    f.shape = shape
    if named is not None:
        f.consumer = ("positional", "POS%s" % tag if rng.random() < 0.7 else None)
    elif rng.random() < 0.4:
        f.consumer = ("positional", "POS%s" % tag)
    if rng.random() < 0.5:
        f.doc = ["positional help %s" % tag]
    f.rust_ty = {"plain": f.base, "option": "Option<%s>" % f.base, "vec": "Vec<%s>" % f.base}[shape]
    return f


def gen_fields(rng, names, tag, allow_pos=True):
    fields = [gen_named_field(rng, names, "%sf%d" % (tag, i)) for i in range(rng.randint(0, 4))]
    if allow_pos and rng.random() < 0.5:
        # positional suffix: required* optional? many?
        shapes = ["plain"] * rng.randint(0, 2)
        if rng.random() < 0.4:
            shapes.append("option")
        elif rng.random() < 0.4:
            shapes.append("vec")
        for i, s in enumerate(shapes):
            fields.append(gen_pos_field(rng, "%sp%d" % (tag, i), s, named=names.ident()))
    return fields


def doc_blocks(rng, tag):
    """descr / header / footer blocks separated by two empty lines"""
    blocks = []
    n = rng.choice([0, 1, 1, 2, 3, 4])
    for i in range(min(n, 3)):
        blocks.append(["%s block %d of %s" % (["descr", "header", "footer"][i], i, tag)])
    if n == 4:
        # everything behind the second break belongs to the footer: a footer of two chunks
        blocks[2] += [CHUNK_BREAK, "second footer chunk of %s" % tag]
    return blocks


def blocks_to_doc(blocks, indent):
    out = ""
    for i, b in enumerate(blocks):
        if i:
            out += "%s///\n%s///\n" % (indent, indent)
        for l in b:
            if l == CHUNK_BREAK:
                out += "%s///\n%s///\n" % (indent, indent)
            else:
                out += "%s/// %s\n" % (indent, l)
    return out


def blocks_to_calls(blocks, explicit=None):
    explicit = explicit or {}
    slots = {}
    for name, b in zip(["descr", "header", "footer"], blocks):
        slots[name] = "\n".join(l for l in b if l != CHUNK_BREAK)
    slots.update(explicit)
    e = ""
    for name in ["descr", "header", "footer"]:
        if name in slots:
            e += ".%s(%s)" % (name, rust_str(slots[name]))
    return e


def sample_value(f, rng, n):
    if f.base in ("u32", "i64", "usize"):
        return str(rng.randint(0, 50) + n)
    return "val%d" % n


def vectors_for(fields, rng, extra_prefix=None):
    """argument vectors exercising the field list: valid lines, omissions, duplicates, wrong
    case, unknown names, help"""
    pre = list(extra_prefix or [])
    named = [f for f in fields if f.kind() != "pos"]
    pos = [f for f in fields if f.kind() == "pos"]
    n = [0]

    def occurrence(f, spell=None):
        shorts, longs = f.names()
        n[0] += 1
        opts = ["-" + s for s in shorts] + ["--" + l for l in longs]
        name = spell or (rng.choice(opts) if opts else "--missing-name")
        if f.kind() == "arg":
            v = sample_value(f, rng, n[0])
            style = rng.random()
            if style < 0.5:
                return [name, v]
            if name.startswith("--") or style < 0.8:
                return [name + "=" + v]
            return [name + v]
        return [name]

    def line(include_optional, dup=None, drop=None, bad=None):
        out = list(pre)
        for f in named:
            if f is drop:
                continue
            ar = f.arity()
            present = ar in ("required", "some") or rng.random() < include_optional
            if not present:
                continue
            reps = 1
            if ar in ("many", "some") and rng.random() < 0.5:
                reps = rng.randint(1, 3)
            if f is dup:
                reps = 2
            for _ in range(reps):
                occ = occurrence(f)
                if f is bad and f.kind() == "arg":
                    occ = [occ[0].split("=")[0], "notanumber"] if f.base in ("u32", "i64") else occ
                out.extend(occ)
        words = []
        for f in pos:
            ar = f.arity()
            if f is drop:
                break
            if ar == "required":
                n[0] += 1
                words.append(sample_value(f, rng, n[0]))
            elif ar == "optional":
                if rng.random() < include_optional:
                    n[0] += 1
                    words.append(sample_value(f, rng, n[0]))
                else:
                    break
            else:
                for _ in range(rng.randint(0, 3) if ar == "many" else rng.randint(1, 3)):
                    n[0] += 1
                    words.append(sample_value(f, rng, n[0]))
        # interleave words at random positions after the prefix
        body = out[len(pre):]
        # keep name/value pairs together: insert words only at unit boundaries -> append / prepend
        if rng.random() < 0.5:
            body = body + words
        else:
            body = words + body
        return pre + body

    vs = []
    for p in (0.0, 0.3, 0.7, 1.0, 1.0, 0.5):
        vs.append(line(p))
    for f in named + pos:
        vs.append(line(0.5, drop=f))
        if f.kind() != "pos":
            vs.append(line(0.5, dup=f))
            vs.append(line(1.0, bad=f))
            shorts, longs = f.names()
            # wrong spellings: catches naming slips (case, underscore, missing dash)
            for l in longs:
                for wrong in {l.upper(), l.replace("-", "_"), l.replace("-", ""), l + "x", l[:-1]}:
                    if wrong and wrong != l:
                        vs.append(pre + ["--" + wrong] + (["1"] if f.kind() == "arg" else []))
                vs.append(pre + occurrence(f, "--" + l))
            for s in shorts:
                vs.append(pre + occurrence(f, "-" + s))
                vs.append(pre + ["-" + s.swapcase()] + (["1"] if f.kind() == "arg" else []))
            if f.name and len(f.name) > 1:
                vs.append(pre + ["--" + f.name] + (["1"] if f.kind() == "arg" else []))
                vs.append(pre + ["-" + f.name[0]] + (["1"] if f.kind() == "arg" else []))
    vs.append(pre + ["--help"])
    vs.append(pre + ["-h"])
    vs.append(pre + ["--help", "--help"])
    vs.append(pre + ["--version"])
    vs.append(pre + ["-V"])
    vs.append(pre + ["--no-such-flag"])
    vs.append(pre + ["stray-word", "another"])
    vs.append(pre + ["--"])
    vs.append(pre)
    return vs


class TypeDef:
    pass


class ExternalField:
    """`#[bpaf(external(fn), optional)] name: Option<Enum>` - a nested derived parser"""

    def __init__(self, name, ty_name, fn_name, variants, explicit_fn):
        self.name = name
        self.ty_name = ty_name
        self.fn_name = fn_name
        self.variants = variants      # [(VariantName, long)]
        self.explicit_fn = explicit_fn

    def kind(self):
        return "ext"

    def arity(self):
        return "optional"

    def names(self):
        return [], []

    def derive_src(self, indent):
        ext = "external(%s)" % self.fn_name if self.explicit_fn else "external"
        return "%s#[bpaf(%s, optional)]\n%s%s: Option<%s>,\n" % (
            indent, ext, indent, self.name, self.ty_name)

    def manual_src(self):
        return "manual_%s().optional()" % self.fn_name

    def type_src(self):
        d = "#[derive(Debug, Clone, PartialEq, Bpaf)]\npub enum %s {\n" % self.ty_name
        arms = []
        m = "pub fn manual_%s() -> impl Parser<%s> {\n" % (self.fn_name, self.ty_name)
        for i, (vn, l) in enumerate(self.variants):
            d += "    %s,\n" % vn
            m += "    let v%d = long(%s).req_flag(%s::%s);\n" % (i, rust_str(l), self.ty_name, vn)
            arms.append("v%d" % i)
        d += "}\n"
        m += "    construct!([%s])\n}\n" % ", ".join(arms)
        return d + "\n" + m


class GroupField:
    """`#[bpaf(external(g))] grp: G` where `G` derives a plain parser (no `options`, no `command`):
    its doc comment becomes the group title unless an explicit `group_help(..)` names one"""

    def __init__(self, ix, doc, explicit):
        self.name = "grp%d" % ix
        self.ty_name = "G%d" % ix
        self.fn_name = "g%d" % ix
        self.ix = ix
        self.doc = doc
        self.explicit = explicit

    def kind(self):
        return "ext"

    def arity(self):
        return "optional"

    def names(self):
        return [], []

    def derive_src(self, indent):
        return "%s#[bpaf(external(%s))]\n%s%s: %s,\n" % (
            indent, self.fn_name, indent, self.name, self.ty_name)

    def manual_src(self):
        return "manual_%s()" % self.fn_name

    def type_src(self):
        d = ""
        if self.doc:
            d += "/// %s\n" % self.doc
        d += "#[derive(Debug, Clone, PartialEq, Bpaf)]\n"
        if self.explicit:
            d += "#[bpaf(group_help(%s))]\n" % rust_str(self.explicit)
        a, b = "gx%da" % self.ix, "gx%db" % self.ix
        d += "pub struct %s {\n    %s: bool,\n    %s: Option<u32>,\n}\n" % (self.ty_name, a, b)
        m = "pub fn manual_%s() -> impl Parser<%s> {\n" % (self.fn_name, self.ty_name)
        m += "    let %s = long(%s).switch();\n" % (a, rust_str(a))
        m += "    let %s = long(%s).argument::<u32>(\"ARG\").optional();\n" % (b, rust_str(b))
        m += "    construct!(%s { %s, %s })" % (self.ty_name, a, b)
        title = self.explicit or self.doc
        if title:
            m += ".group_help(%s)" % rust_str(title)
        m += "\n}\n"
        return d + "\n" + m


def gen_external(rng, names, ix):
    vs = []
    for vn in rng.sample(VARIANTS, rng.randint(2, 3)):
        l = kebab(vn)
        if names.take_long(l):
            vs.append((vn, l))
    if len(vs) < 2:
        return None
    explicit = rng.random() < 0.5
    ty = "X%d" % ix
    # without an explicit function name the field name is the function name
    fn = "x%d" % ix
    fname = fn if not explicit else names.ident(allow_raw=False)
    return ExternalField(fname, ty, fn, vs, explicit)


def gen_struct(rng, ix):
    names = Names(rng)
    t = TypeDef()
    t.name = "S%d" % ix
    t.fn = "s%d" % ix
    t.kind = "struct"
    t.tuple = rng.random() < 0.15
    tag = "t%d" % ix
    if t.tuple:
        shapes = ["plain"] * rng.randint(1, 2) + rng.choice([[], ["option"], ["vec"]])
        t.fields = [gen_pos_field(rng, "%sp%d" % (tag, i), s) for i, s in enumerate(shapes)]
    else:
        t.fields = gen_fields(rng, names, tag)
        if not t.fields:
            t.fields = [gen_named_field(rng, names, tag + "f0")]
        t.external = None
        t.group = None
        if rng.random() < 0.2:
            doc = "group title from the doc comment %d" % ix if rng.random() < 0.7 else None
            explicit = "explicit group title %d" % ix if rng.random() < 0.6 else None
            t.group = GroupField(ix, doc, explicit)
            at = next((i for i, f in enumerate(t.fields) if f.kind() == "pos"), len(t.fields))
            t.fields.insert(at, t.group)
        if rng.random() < 0.25:
            ext = gen_external(rng, names, ix)
            if ext is not None:
                t.external = ext
                # named parsers must stay in front of positional ones
                at = next((i for i, f in enumerate(t.fields) if f.kind() == "pos"), len(t.fields))
                t.fields.insert(at, ext)
    t.blocks = doc_blocks(rng, tag)
    t.version = rng.choice([None, None, "cargo", "lit"])
    # explicit descr/header/footer override exactly the slot they name; the doc comment's
    # blocks keep filling the other slots positionally
    t.explicit = {}
    for slot in ("descr", "header", "footer"):
        if rng.random() < 0.15:
            t.explicit[slot] = "explicit %s of %s" % (slot, tag)
    t.vectors = vectors_for([f for f in t.fields if f.kind() != "ext"], rng)
    if getattr(t, "group", None) is not None:
        g = t.group
        t.vectors += [["--gx%da" % g.ix] + v for v in t.vectors[:4]]
        t.vectors += [["--gx%db" % g.ix, "7"] + v for v in t.vectors[:3]]
        t.vectors.append(["--gx%db" % g.ix, "x"])
    ext = getattr(t, "external", None)
    if ext is not None:
        extra = []
        for v in t.vectors[:8]:
            for (_vn, l) in ext.variants[:2]:
                extra.append(["--" + l] + v)
        extra.append(["--" + ext.variants[0][1], "--" + ext.variants[1][1]])
        extra.append(["--" + ext.variants[0][1].upper()])
        t.vectors += extra
    return t


def struct_src(t):
    d = blocks_to_doc(t.blocks, "")
    ann = "options"
    for slot, text in t.explicit.items():
        ann += ", %s(%s)" % (slot, rust_str(text))
    if t.version == "cargo":
        ann += ", version"
    elif t.version == "lit":
        ann += ', version("9.9.9")'
    d += "#[derive(Debug, Clone, PartialEq, Bpaf)]\n#[bpaf(%s)]\n" % ann
    if t.tuple:
        d += "pub struct %s(\n" % t.name
        for f in t.fields:
            d += f.derive_src("    ")
        d += ");\n"
    else:
        d += "pub struct %s {\n" % t.name
        for f in t.fields:
            d += f.derive_src("    ")
        d += "}\n"
    # manual
    m = "pub fn manual_%s() -> OptionParser<%s> {\n" % (t.fn, t.name)
    idents = []
    for i, f in enumerate(t.fields):
        ident = rid(f.name) if f.name else "f%d" % i
        idents.append(ident)
        m += "    let %s = %s;\n" % (ident, f.manual_src())
    if t.tuple:
        m += "    construct!(%s(%s))" % (t.name, ", ".join(idents))
    else:
        m += "    construct!(%s { %s })" % (t.name, ", ".join(idents))
    m += ".to_options()" + blocks_to_calls(t.blocks, t.explicit)
    if t.version == "cargo":
        m += '.version(env!("CARGO_PKG_VERSION"))'
    elif t.version == "lit":
        m += '.version("9.9.9")'
    m += "\n}\n"
    ext = getattr(t, "external", None)
    pre = ext.type_src() + "\n" if ext is not None else ""
    grp = getattr(t, "group", None)
    if grp is not None:
        pre += grp.type_src() + "\n"
    return pre + d + "\n" + m


def gen_topcmd(rng, ix):
    """`#[bpaf(command, <decorations>)] struct C { .. }` used through `external` from an
    `options` struct: decorations written on the command's own annotation apply to the parser
    made of its fields (inside the subcommand), the command attributes (short, long, help) to
    the command itself"""
    while True:
        t = gen_struct(rng, ix)
        if not t.tuple and getattr(t, "external", None) is None and getattr(
                t, "group", None) is None and not any(
                f.kind() == "pos" and f.arity() in ("many", "some") for f in t.fields):
            break
    t.kind = "topcmd"
    t.inner = "C%d" % ix
    t.inner_fn = "c%d" % ix
    t.cmd_name = rng.choice([None, "run%d" % ix, "do-it"])
    t.cmd_short = rng.choice([None, None, "r"])
    t.cmd_alias = rng.choice([None, None, "alias%d" % ix])
    t.cmd_help = rng.choice([None, None, "explicit command help %d" % ix])
    t.usage_fallback = rng.random() < 0.2
    t.adjacent = rng.random() < 0.15
    decor = []
    if rng.random() < 0.6:
        decor.append(("fallback", "%s::default()" % t.inner))
    if rng.random() < 0.3:
        decor.append(("hide",))
    if rng.random() < 0.3:
        decor.append(("hide_usage",))
    if rng.random() < 0.25:
        decor.append(("custom_usage", "CUSTOM%d" % ix))
    rng.shuffle(decor)
    t.decor = decor
    name = t.cmd_name or kebab(t.inner)
    inner_vectors = t.vectors
    vs = []
    for v in inner_vectors:
        vs.append([name] + v)
    for v in inner_vectors[:6]:
        vs.append(v)
        vs.append(v + [name])
    if t.cmd_short:
        vs += [[t.cmd_short] + v for v in inner_vectors[:6]]
    if t.cmd_alias:
        vs += [[t.cmd_alias] + v for v in inner_vectors[:6]]
    vs += [[], ["--help"], [name], [name, "--help"], [name, name], ["--help", name],
           [name.upper()], [name[:-1]]]
    t.vectors = vs
    return t


def topcmd_src(t):
    d = blocks_to_doc(t.blocks, "")
    ann = "command" if t.cmd_name is None else "command(%s)" % rust_str(t.cmd_name)
    anns = [ann]
    extra = []
    if t.cmd_short:
        extra.append("short('%s')" % t.cmd_short)
    if t.cmd_alias:
        extra.append("long(%s)" % rust_str(t.cmd_alias))
    if t.cmd_help:
        extra.append("help(%s)" % rust_str(t.cmd_help))
    for slot, text in t.explicit.items():
        extra.append("%s(%s)" % (slot, rust_str(text)))
    if t.version == "cargo":
        extra.append("version")
    elif t.version == "lit":
        extra.append('version("9.9.9")')
    if t.usage_fallback:
        extra.append("fallback_to_usage")
    if t.adjacent:
        extra.append("adjacent")
    for p in t.decor:
        if p[0] == "fallback":
            extra.append("fallback(%s)" % p[1])
        elif p[0] == "custom_usage":
            extra.append("custom_usage(%s)" % rust_str(p[1]))
        else:
            extra.append(p[0])
    # the order in which independent annotations are written does not matter
    anns += extra
    d += "#[derive(Debug, Clone, PartialEq, Default, Bpaf)]\n#[bpaf(%s)]\n" % ", ".join(anns)
    d += "pub struct %s {\n" % t.inner
    for f in t.fields:
        d += f.derive_src("    ")
    d += "}\n\n"
    d += "#[derive(Debug, Clone, PartialEq, Bpaf)]\n#[bpaf(options)]\npub struct %s {\n" % t.name
    d += "    #[bpaf(external(%s))]\n    inner: %s,\n}\n" % (t.inner_fn, t.inner)
    m = "pub fn manual_%s() -> OptionParser<%s> {\n" % (t.fn, t.name)
    m += "    let inner = {\n"
    idents = []
    for f in t.fields:
        ident = rid(f.name)
        idents.append(ident)
        m += "        let %s = %s;\n" % (ident, f.manual_src())
    m += "        construct!(%s { %s })" % (t.inner, ", ".join(idents))
    for p in t.decor:
        if p[0] == "fallback":
            m += ".fallback(%s)" % p[1]
        elif p[0] == "custom_usage":
            m += ".custom_usage(%s)" % rust_str(p[1])
        else:
            m += ".%s()" % p[0]
    m += ".to_options()"
    if t.usage_fallback:
        m += ".fallback_to_usage()"
    if t.version == "cargo":
        m += '.version(env!("CARGO_PKG_VERSION"))'
    elif t.version == "lit":
        m += '.version("9.9.9")'
    m += blocks_to_calls(t.blocks, t.explicit)
    m += ".command(%s)" % rust_str(t.cmd_name or kebab(t.inner))
    if t.cmd_short:
        m += ".short('%s')" % t.cmd_short
    if t.cmd_alias:
        m += ".long(%s)" % rust_str(t.cmd_alias)
    if t.cmd_help:
        m += ".help(%s)" % rust_str(t.cmd_help)
    if t.adjacent:
        m += ".adjacent()"
    m += "\n    };\n"
    m += "    construct!(%s { inner }).to_options()\n}\n" % t.name
    return d + "\n" + m


def gen_enum(rng, ix):
    names = Names(rng)
    t = TypeDef()
    t.name = "E%d" % ix
    t.fn = "e%d" % ix
    t.kind = "enum"
    tag = "t%d" % ix
    t.blocks = doc_blocks(rng, tag)
    t.commands = rng.random() < 0.5
    t.variants = []
    vnames = rng.sample(VARIANTS, rng.randint(2, 4))
    vectors = []
    for vi, vn in enumerate(vnames):
        v = TypeDef()
        v.name = vn
        v.skip = False
        v.doc = ["variant help %s %d" % (tag, vi)] if rng.random() < 0.6 else None
        if t.commands:
            v.kind = "command"
            v.cmd_name = None if rng.random() < 0.6 else kebab(vn) + "-cmd"
            v.short = names.fresh_short() if rng.random() < 0.3 else None
            v.alias = names.fresh_long() if rng.random() < 0.3 else None
            inner_names = Names(rng)
            v.fields = gen_fields(rng, inner_names, "%sv%d" % (tag, vi))
            v.blocks = doc_blocks(rng, "%sv%d" % (tag, vi))
            # explicit header/footer on the variant, for the slots the doc comment leaves empty
            v.explicit = {}
            if len(v.blocks) < 2 and rng.random() < 0.3:
                v.explicit["header"] = "explicit header of %sv%d" % (tag, vi)
            if len(v.blocks) < 3 and rng.random() < 0.3:
                v.explicit["footer"] = "explicit footer of %sv%d" % (tag, vi)
            cname = v.cmd_name or kebab(vn)
            names.take_long(cname)
            vectors += vectors_for(v.fields, rng, [cname])
            if v.short:
                vectors.append([v.short] + vectors_for(v.fields, rng)[3])
            if v.alias:
                vectors.append([v.alias] + vectors_for(v.fields, rng)[3])
            vectors.append([cname.upper()])
            vectors.append([vn])
        else:
            k = rng.random()
            if 0.5 <= k < 0.62:
                # tuple variant: unnamed field -> positional
                v.kind = "tuple"
                v.fields = [gen_pos_field(rng, "%sv%dp" % (tag, vi), "plain")]
                vectors += [["word%d" % vi], ["word%d" % vi, "extra"], ["17"]]
            elif k < 0.5:
                v.kind = "unit"
                v.naming = []
                l = kebab(vn)
                if not names.take_long(l):
                    v.naming = [("long", names.fresh_long())]
                elif rng.random() < 0.3:
                    v.naming = [("short", names.fresh_short()), ("long", None)]
                shorts = [a for k2, a in v.naming if k2 == "short"]
                longs = [a if a else kebab(vn) for k2, a in v.naming if k2 == "long"] or [kebab(vn)]
                for l2 in longs:
                    vectors.append(["--" + l2])
                    vectors.append(["--" + l2, "--" + l2])
                    vectors.append(["--" + l2.upper()])
                    vectors.append(["--" + l2.replace("-", "_")])
                    vectors.append(["--" + l2.replace("-", "")])
                for s in shorts:
                    vectors.append(["-" + s])
                vectors.append(["--" + vn])
            else:
                v.kind = "fields"
                v.fields = gen_fields(rng, names, "%sv%d" % (tag, vi), allow_pos=False)
                # a variant must require something, otherwise the first such variant always wins
                req = gen_named_field(rng, names, "%sv%dreq" % (tag, vi))
                req.base, req.shape, req.rust_ty = "u32", "plain", "u32"
                req.consumer, req.post = None, []
                v.fields.insert(0, req)
                v.adjacent = rng.random() < 0.3
                vectors += vectors_for(v.fields, rng)
        t.variants.append(v)
    if rng.random() < 0.2:
        s = TypeDef()
        s.name = "SkippedOne"
        s.skip = True
        s.kind = "unit"
        s.doc = None
        t.variants.append(s)
    # mixing two variants, nothing at all
    if len(vectors) > 4:
        a, b = rng.sample(vectors, 2)
        vectors.append(a + b)
    vectors += [[], ["--help"], ["-h"], ["--no-such-flag"], ["--version"]]
    t.version = None
    t.vectors = vectors
    return t


def enum_src(t):
    d = blocks_to_doc(t.blocks, "")
    d += "#[derive(Debug, Clone, PartialEq, Bpaf)]\n#[bpaf(options)]\n"
    d += "pub enum %s {\n" % t.name
    arms = []
    m = "pub fn manual_%s() -> OptionParser<%s> {\n" % (t.fn, t.name)
    for vi, v in enumerate(t.variants):
        if v.doc:
            for l in v.doc:
                d += "    /// %s\n" % l
        if v.skip:
            d += "    #[bpaf(skip)]\n    %s,\n" % v.name
            continue
        ident = "v%d" % vi
        if v.kind == "unit":
            ann = []
            for k, a in v.naming:
                if a is None:
                    ann.append(k)
                elif k == "short":
                    ann.append("short('%s')" % a)
                else:
                    ann.append("long(%s)" % rust_str(a))
            if ann:
                d += "    #[bpaf(%s)]\n" % ", ".join(ann)
            d += "    %s,\n" % v.name
            parts = []
            if not v.naming:
                parts.append("long(%s)" % rust_str(kebab(v.name)))
            for k, a in v.naming:
                if k == "short":
                    parts.append("short('%s')" % (a if a else kebab(v.name)[0]))
                else:
                    parts.append("long(%s)" % rust_str(a if a else kebab(v.name)))
            e = ".".join(parts)
            if v.doc:
                e += ".help(%s)" % rust_str("\n".join(v.doc))
            e += ".req_flag(%s::%s)" % (t.name, v.name)
            m += "    let %s = %s;\n" % (ident, e)
        elif v.kind == "tuple":
            d += "    %s(\n" % v.name
            for f in v.fields:
                d += f.derive_src("        ")
            d += "    ),\n"
            m += "    let %s = {\n" % ident
            for i, f in enumerate(v.fields):
                m += "        let p%d = %s;\n" % (i, f.manual_src())
            m += "        construct!(%s::%s(%s))\n    };\n" % (
                t.name, v.name, ", ".join("p%d" % i for i in range(len(v.fields))))
        elif v.kind == "fields":
            if getattr(v, "adjacent", False):
                d += "    #[bpaf(adjacent)]\n"
            d += "    %s {\n" % v.name
            for f in v.fields:
                d += f.derive_src("        ")
            d += "    },\n"
            m += "    let %s = {\n" % ident
            for f in v.fields:
                m += "        let %s = %s;\n" % (rid(f.name), f.manual_src())
            m += "        construct!(%s::%s { %s })%s\n    };\n" % (
                t.name, v.name, ", ".join(rid(f.name) for f in v.fields),
                ".adjacent()" if getattr(v, "adjacent", False) else "")
        else:
            ann = ["command" if v.cmd_name is None else "command(%s)" % rust_str(v.cmd_name)]
            if v.short:
                ann.append("short('%s')" % v.short)
            if v.alias:
                ann.append("long(%s)" % rust_str(v.alias))
            for slot in ("header", "footer"):
                if slot in v.explicit:
                    ann.append("%s(%s)" % (slot, rust_str(v.explicit[slot])))
            # variant doc comment: blocks -> descr / header / footer of the subcommand
            doc = ""
            if v.blocks:
                # replace the simple variant doc by the block form
                d = d[: d.rfind("    /// variant help")] if v.doc else d
                doc = blocks_to_doc(v.blocks, "    ")
            elif v.doc:
                pass
            d += doc
            d += "    #[bpaf(%s)]\n" % ", ".join(ann)
            if v.fields:
                d += "    %s {\n" % v.name
                for f in v.fields:
                    d += f.derive_src("        ")
                d += "    },\n"
            else:
                d += "    %s {},\n" % v.name
            m += "    let %s = {\n" % ident
            for f in v.fields:
                m += "        let %s = %s;\n" % (rid(f.name), f.manual_src())
            if v.blocks:
                calls = blocks_to_calls(v.blocks, v.explicit)
            else:
                calls = ".descr(%s)" % rust_str("\n".join(v.doc)) if v.doc else ""
                for slot in ("header", "footer"):
                    if slot in v.explicit:
                        calls += ".%s(%s)" % (slot, rust_str(v.explicit[slot]))
            m += "        construct!(%s::%s { %s }).to_options()%s.command(%s)" % (
                t.name, v.name, ", ".join(rid(f.name) for f in v.fields), calls,
                rust_str(v.cmd_name or kebab(v.name)))
            if v.short:
                m += ".short('%s')" % v.short
            if v.alias:
                m += ".long(%s)" % rust_str(v.alias)
            m += "\n    };\n"
        arms.append(ident)
    d += "}\n"
    m += "    construct!([%s]).to_options()%s\n}\n" % (", ".join(arms), blocks_to_calls(t.blocks))
    return d + "\n" + m


MAIN_HEAD = r'''// generated by /verif/bin/derive_gen.py - do not edit
#![allow(dead_code, unused_imports, clippy::all)]
use bpaf::*;
use std::ffi::OsString;
use std::path::PathBuf;

fn small_u32(v: &u32) -> bool { *v < 1000 }
fn small_i64(v: &i64) -> bool { *v < 1000 }

fn norm<T: std::fmt::Debug>(r: Result<T, ParseFailure>) -> (String, String) {
    match r {
        Ok(v) => ("value".into(), format!("{:?}", v)),
        Err(ParseFailure::Stdout(d, full)) => ("stdout".into(), d.monochrome(full)),
        Err(ParseFailure::Stderr(d)) => ("stderr".into(), d.monochrome(true)),
        Err(ParseFailure::Completion(s)) => ("completion".into(), s),
    }
}

fn esc(s: &str) -> String {
    let mut o = String::new();
    for c in s.chars() {
        match c {
            '"' => o.push_str("\\\""),
            '\\' => o.push_str("\\\\"),
            '\n' => o.push_str("\\n"),
            '\t' => o.push_str("\\t"),
            c if (c as u32) < 0x20 => o.push_str(&format!("\\u{:04x}", c as u32)),
            c => o.push(c),
        }
    }
    o
}

struct Tally { runs: u64, values: u64, stdout: u64, stderr: u64, mismatches: u64 }

fn compare<T: std::fmt::Debug + PartialEq + 'static>(
    ty: &str,
    derived: &OptionParser<T>,
    manual: &OptionParser<T>,
    vectors: &[&[&str]],
    tally: &mut Tally,
) {
    for v in vectors {
        let a = std::panic::catch_unwind(std::panic::AssertUnwindSafe(|| norm(derived.run_inner(*v))))
            .unwrap_or_else(|_| ("panic".into(), String::new()));
        let b = std::panic::catch_unwind(std::panic::AssertUnwindSafe(|| norm(manual.run_inner(*v))))
            .unwrap_or_else(|_| ("panic".into(), String::new()));
        tally.runs += 1;
        match a.0.as_str() { "value" => tally.values += 1, "stdout" => tally.stdout += 1, "stderr" => tally.stderr += 1, _ => {} }
        if a != b {
            tally.mismatches += 1;
            let argv: Vec<String> = v.iter().map(|s| format!("\"{}\"", esc(s))).collect();
            println!("{{\"type\":\"{}\",\"argv\":[{}],\"derived\":[\"{}\",\"{}\"],\"manual\":[\"{}\",\"{}\"]}}",
                ty, argv.join(","), a.0, esc(&a.1), b.0, esc(&b.1));
        }
    }
}
'''


def main():
    seed, n, out = int(sys.argv[1]), int(sys.argv[2]), sys.argv[3]
    rng = random.Random(seed)
    os.makedirs(os.path.join(out, "src"), exist_ok=True)
    types = []
    for i in range(n):
        r = rng.random()
        types.append(gen_struct(rng, i) if r < 0.5 else gen_topcmd(rng, i) if r < 0.62
                     else gen_enum(rng, i))
    src = MAIN_HEAD
    for t in types:
        src += "\n" + (struct_src(t) if t.kind == "struct" else topcmd_src(t)
                       if t.kind == "topcmd" else enum_src(t))
    src += "\nfn main() {\n    std::panic::set_hook(Box::new(|_| {}));\n"
    src += "    let mut tally = Tally { runs: 0, values: 0, stdout: 0, stderr: 0, mismatches: 0 };\n"
    total = 0
    for t in types:
        # de-duplicate vectors, keep order
        seen, vs = set(), []
        for v in t.vectors:
            k = tuple(v)
            if k not in seen:
                seen.add(k)
                vs.append(v)
        total += len(vs)
        arr = ", ".join("&[%s]" % ", ".join(rust_str(a) for a in v) for v in vs)
        src += "    compare(%s, &%s(), &manual_%s(), &[%s], &mut tally);\n" % (
            rust_str(t.name), t.fn, t.fn, arr)
    src += ('    println!("{{\\"summary\\":true,\\"runs\\":{},\\"values\\":{},\\"stdout\\":{},'
            '\\"stderr\\":{},\\"mismatches\\":{}}}", tally.runs, tally.values, tally.stdout, '
            'tally.stderr, tally.mismatches);\n}\n')
    with open(os.path.join(out, "src", "main.rs"), "w") as f:
        f.write(src)
    with open(os.path.join(out, "Cargo.toml"), "w") as f:
        f.write('[package]\nname = "derive-case"\nversion = "0.4.2"\nedition = "2021"\n'
                'publish = false\n\n[dependencies]\n'
                'bpaf = { path = "%s", features = ["derive"] }\n\n[workspace]\n\n'
                % (os.environ.get("VP_RUN_REPO") or "/repo") +
                '[profile.dev]\nopt-level = 0\ndebug = false\noverflow-checks = true\n')
    meta = {"types": n, "vectors": total,
            "structs": sum(1 for t in types if t.kind == "struct"),
            "decorated_commands": sum(1 for t in types if t.kind == "topcmd"),
            "enums": sum(1 for t in types if t.kind == "enum")}
    print(json.dumps(meta))


if __name__ == "__main__":
    main()
