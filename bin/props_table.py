"""Per-property configuration for bin/check: budgets (in cases), evidence rule text, assumptions,
and what a run must have observed before "held" may be reported."""

COMMON_ASSUMPTIONS = [
    "Verdict covers only the executions listed in coverage: definitions come from the harness's "
    "Spec generators (at most 12 fields per group, command depth <= 3, vectors <= ~45 items).",
    "bpaf is built from /repo's working tree in release mode with overflow-checks and "
    "debug-assertions on; hooks are compiled in with --cfg bpaf_verif.",
]

DISTINCT = ("distinct_nontrivial = number of distinct (definition hash, mode, argument vector) "
            "triples with a non-empty vector, counted with hash sets merged across shards.")

PROPS = {
    "C01": {
        "cases": {"quick": 480, "thorough": 24000},
        "rule": "Per case one random definition of the conventional fragment (0-8 named items of "
                "every arity, positional suffix or command tree up to 3 levels, aliases). Vectors: "
                "derivations in random order/spelling (value known by construction), single-edit "
                "mutations of them and random vectors over the definition's alphabet, both judged "
                "by an independent reference recogniser. " + DISTINCT,
        "assumptions": COMMON_ASSUMPTIONS + [
            "The reference recogniser encodes the documented surface syntax; vectors that hit the "
            "two carve-outs of the quantifier are counted as inconclusive, not judged.",
        ],
        "must_observe": ["judged:sentence", "judged:model-accept", "judged:model-reject"],
        "needs_hooks": True,
        "technique": "runtime monitoring: reference-model monitor (independent recogniser) + "
                     "derivation-directed oracle over generated definitions x vectors; ledger "
                     "invariant hook",
        "level_text": "Held on the executions observed: tens of thousands (quick) to millions "
                      "(thorough) of run_inner calls on generated conventional definitions, each "
                      "judged by an executable model of the documented grammar and, for "
                      "sentences, by the value the derivation denotes. Exploration, not proof: "
                      "shapes the generator cannot produce are not covered.",
        "level_note": "Trusted: the harness's reference recogniser and derivation generator "
                      "(cross-checked against each other on every sentence; disagreement is "
                      "inconclusive, not a verdict), rustc, std.",
    },
    "C04": {
        "cases": {"quick": 640, "thorough": 40000},
        "rule": "Per case one random definition of any invariant-respecting shape x byte-string "
                "vectors (noise over the definition's names, junk items, invalid UTF-8, 1-4 KiB "
                "clusters, sentences with hostile values) x modes {parse, completion revisions "
                "0/1/7/8/9 with/without application name} plus markdown/html/manpage rendering; "
                "every execution runs under catch_unwind with a fuel budget and is repeated three "
                "times (again, after unrelated runs, fresh parser) and compared. " + DISTINCT,
        "assumptions": COMMON_ASSUMPTIONS + [
            "Termination is decided on a logical step counter (fuel = 10000 x (items+1) x "
            "(spec nodes+1)), never on wall-clock time.",
            "Unknown completion revisions and --bpaf-complete-style-* exit the process by design "
            "and are outside the quantifier.",
        ],
        "must_observe": ["mode:parse", "mode:complete-rev9", "mode:manpage", "purity_reruns"],
        "needs_hooks": True,
        "death_is_violation": True,
        "technique": "runtime monitoring: catch_unwind + overflow/debug-assertion instrumentation "
                     "+ fuel hook (logical step counter) + repeated-run purity oracle over "
                     "byte-noise workloads in every mode",
        "level_text": "Held on the executions observed: every (definition, vector, mode) triple "
                      "returned normally within the step budget and gave the same outcome on "
                      "four runs. A shard process that dies is attributed to the case it was "
                      "running and reported as a violation.",
        "level_note": "Trusted: the fuel budget is 3-4 orders of magnitude above what terminating "
                      "runs use (maximum observed is in the evidence); purity is compared on "
                      "normalised outcomes (value, monochrome text).",
    },
}
