"""Per-property configuration for bin/check: budgets (in cases), evidence rule text, assumptions,
and what a run must have observed before "held" may be reported."""

COMMON_ASSUMPTIONS = [
    "Verdict covers only the executions listed in coverage: definitions come from the harness's "
    "Spec generators (at most 12 fields per group, command depth <= 3, vectors <= ~45 items).",
    "bpaf is built from /repo's working tree in release mode with overflow-checks and "
    "debug-assertions on; hooks are compiled in with --cfg bpaf_verif.",
]

DISTINCT = ("distinct_nontrivial = number of distinct (definition hash, mode, argument vector) "
            "triples with a non-empty vector, counted with hash sets merged across shards.")

PROPS = {
    "C01": {
        "cases": {"quick": 4800, "thorough": 160000},
        "rule": "Per case one random definition of the conventional fragment (0-8 named items of "
                "every arity, positional suffix or command tree up to 3 levels, aliases). Vectors: "
                "derivations in random order/spelling (value known by construction), single-edit "
                "mutations of them and random vectors over the definition's alphabet, both judged "
                "by an independent reference recogniser.  Random vectors also spell flags with an attached value (`--verbose=yes`, `-v=`), which the grammar rejects. " + DISTINCT,
        "assumptions": COMMON_ASSUMPTIONS + [
            "The reference recogniser encodes the documented surface syntax; vectors that hit the "
            "two carve-outs of the quantifier are counted as inconclusive, not judged.",
        ],
        "must_observe": ["judged:sentence", "judged:model-accept", "judged:model-reject"],
        "needs_hooks": True,
        "technique": "runtime monitoring: reference-model monitor (independent recogniser) + "
                     "derivation-directed oracle over generated definitions x vectors; ledger "
                     "invariant hook",
        "level_text": "Held on the executions observed: tens of thousands (quick) to millions "
                      "(thorough) of run_inner calls on generated conventional definitions, each "
                      "judged by an executable model of the documented grammar and, for "
                      "sentences, by the value the derivation denotes. Exploration, not proof: "
                      "shapes the generator cannot produce are not covered.",
        "level_note": "Trusted: the harness's reference recogniser and derivation generator "
                      "(cross-checked against each other on every sentence; disagreement is "
                      "inconclusive, not a verdict), rustc, std.",
    },
    "C04": {
        "cases": {"quick": 2400, "thorough": 48000},
        "rule": "Per case one random definition of any invariant-respecting shape x byte-string "
                "vectors (noise over the definition's names, junk items, invalid UTF-8, clusters of "
                "0.4-1.2 KiB (quick) / up to 2 KiB (thorough) per vector, sentences with hostile values) x modes {parse, completion revisions "
                "0/1/7/8/9 with/without application name} plus markdown/html/manpage rendering; "
                "every execution runs under catch_unwind with a fuel budget and is repeated three "
                "times (again, after unrelated runs, fresh parser) and compared.  A branch of a choice may be an adjacent group.  Each case also runs bpaf::batteries (verbose_and_quiet_by_number, verbose_by_slice, toggle_flag) on a random line of -v/-q/--on/--off items and clusters against a clamp model, twice. " + DISTINCT,
        "assumptions": COMMON_ASSUMPTIONS + [
            "Termination is decided on a logical step counter (fuel = 10000 x (items+1) x "
            "(spec nodes+1)), never on wall-clock time.",
            "Unknown completion revisions and --bpaf-complete-style-* exit the process by design "
            "and are outside the quantifier.",
        ],
        "must_observe": ["mode:parse", "mode:complete-rev9", "mode:manpage", "purity_reruns"],
        "needs_hooks": True,
        "death_is_violation": True,
        "technique": "runtime monitoring: catch_unwind + overflow/debug-assertion instrumentation "
                     "+ fuel hook (logical step counter) + repeated-run purity oracle over "
                     "byte-noise workloads in every mode",
        "level_text": "Held on the executions observed: every (definition, vector, mode) triple "
                      "returned normally within the step budget and gave the same outcome on "
                      "four runs. A shard process that dies is attributed to the case it was "
                      "running and reported as a violation.",
        "level_note": "Trusted: the fuel budget is 3-4 orders of magnitude above what terminating "
                      "runs use (maximum observed is in the evidence); purity is compared on "
                      "normalised outcomes (value, monochrome text).",
    },
    "C02": {
        "cases": {"quick": 9600, "thorough": 320000},
        "rule": "Per case one random any-free definition (hidden items, aliases, non-ASCII names, "
                "adjacent-restricted arguments, groups, commands) x derivations with hostile "
                "values (empty, `=`, leading dashes, spaces, non-ASCII, invalid UTF-8 for "
                "OS-string/path targets); each derivation is run in its canonical spelling and in "
                "random respellings of the same units in the same order (five argument spellings, "
                "aliases, clusters, cluster ending in a short argument); outcomes of the pair are "
                "compared, values compared byte-exact with the derivation.  Every 64th case writes the help switch of a subcommand into a cluster where the top level uses another letter (F43), another one a `-c` / `-c=WHEN` pair of a switch and an adjacent argument. One definition in twelve names an argument `-h`/`-V` like a built-in switch, one in eight names a flag `-h`; the built-in help/version switch written next to a flag (`-v -V`) and inside its cluster (`-vV`) must give the same outcome. " + DISTINCT,
        "assumptions": COMMON_ASSUMPTIONS + [
            "Spellings the statement does not list as interchangeable are not generated: "
            "`-ab=VALUE`, `-nVALUE` with an empty value or one starting with `=`, detached values "
            "starting with `-`.",
            "For failing lines only the outcome class is compared (error text quotes the spelling).",
        ],
        "must_observe": ["class:builtin-switch-in-cluster", "pairs", "spell:LongEq", "spell:ShortJoined", "spell:ShortEq",
                         "spell:clusters"],
        "needs_hooks": True,
        "technique": "runtime monitoring: metamorphic oracle over pairs of real runs (respelling) "
                     "+ derivation-directed byte-exact value oracle; violations are decomposed "
                     "into single-spelling substitutions for attribution",
        "level_text": "Held on the executions observed: every respelled pair gave the same "
                      "outcome and every accepted canonical line returned exactly the bytes "
                      "written, for the definitions and value payloads generated.",
        "level_note": "Trusted: the derivation generator's notion of which spellings are "
                      "interchangeable (taken from the statement and src/params.rs docs).",
    },
    "C03": {
        "cases": {"quick": 9600, "thorough": 320000},
        "rule": "Per case one random definition without any/adjacent groups x derivations (valid, "
                "and invalid ones with an occurrence dropped, doubled or a foreign flag added); "
                "each is linearised in canonical order and in random permutations of its named "
                "occurrences that keep same-field order, positional order and the side of "
                "command names and `--`; spelling is identical in both lines.  Sibling commands share a letter (switch here, argument there) in a quarter of the definitions; two neighbouring flags that feed different fields are also written as one cluster in both orders (`-ab`, `-ba`).  Every first permutation is also run with one argument written `--name=` (empty value attached) in both orders; every 16th case is one of two shapes in which a named occurrence and a word compete for a slot (F34, F35). " + DISTINCT + "  A dedicated scenario has alternatives that share a switch (`construct!([{-v}, {-v, --name N}])`): every order of the occurrences gives the same outcome. ",
        "assumptions": COMMON_ASSUMPTIONS + [
            "For two failing lines only the outcome class is compared (the message may name a "
            "different item); differing texts are counted, not judged.",
        ],
        "must_observe": ["cluster-pairs", "pairs", "placement:named-between-positionals",
                         "placement:named-after-positional"],
        "needs_hooks": True,
        "technique": "runtime monitoring: metamorphic oracle over pairs of real runs "
                     "(permutation of named occurrences) + derivation-directed value oracle",
        "level_text": "Held on the executions observed: canonical order and every sampled "
                      "permutation gave equal outcomes.",
        "level_note": "Trusted: order_units produces only permutations the statement allows.",
    },
    "C05": {
        "cases": {"quick": 9600, "thorough": 320000},
        "rule": "Per case one random any-free definition x accepted derivations; every accepted "
                "line must return exactly the denoted value (conservation/attribution with unique "
                "tokens) and, with one foreign flag / `--name=value` / surplus word / duplicate "
                "of a single-use occurrence / `=junk` on a flag inserted at the item boundaries "
                "left of `--`, must fail on stderr. Hooks: the outermost accept event must show "
                "every item consumed; cached remaining count must equal the ledger at every "
                "remove/set_scope.  Another name of a command inserted right behind its name must be treated like an unrelated word in that place. " + DISTINCT + "  A second `--` right of the separator is compared with an unrelated word in its place. ",
        "assumptions": COMMON_ASSUMPTIONS + [
            "Surplus words are only inserted where the active level declares no positional or "
            "command at all (elsewhere a word may legitimately be claimed).",
        ],
        "must_observe": ["class:accepted-line", "class:insert:foreign-long",
                         "class:insert:foreign-short", "class:insert:flag-with-value",
                         "class:insert:duplicate-flag", "accept_ledgers_checked",
                         "class:partial-group:FallbackWithOk", "class:partial-group:Optional"],
        "needs_hooks": True,
        "technique": "runtime monitoring: derivation-directed insertion oracle + conservation "
                     "oracle on unique tokens + invariant hooks on the consumption ledger "
                     "(accept event, remaining-count check)",
        "level_text": "Held on the executions observed: no inserted item slipped through, every "
                      "accepted line was attributed exactly, and the ledger hooks saw no "
                      "unconsumed item behind a returned value.",
        "level_note": "Trusted: the hooks read bpaf's own ItemState ledger at the point "
                      "run_subparser returns Ok.",
    },
    "C06": {
        "cases": {"quick": 9600, "thorough": 240000},
        "rule": "Per case one random definition with typed (u32/i64/String/OsString) arguments "
                "and positionals under optional/many/some/fallback/fallback_with/count/last, guard "
                "and parse steps, nested in alternatives, adjacent groups and commands. Accepted "
                "derivations (alternately mostly-absent and mostly-present) must yield the denoted "
                "value; then every typed occurrence is replaced, one at a time, by every kind of "
                "invalid text (non-numeric, empty, `1x`, `-`, overflow, invalid UTF-8, "
                "guard-tripping, parse-tripping; also as the value of the declared environment "
                "variable of an item absent from the line) and the run must fail on stderr, with the "
                "conversion/guard/parse message in the text unless the item is inside a choice.  Chains of adjacent commands may end in a typed word with a default; every 16th case is a dedicated `sleep [SECONDS]` scenario next to trailing words of the enclosing level (F32). "
                + DISTINCT + "  A third scenario: a choice between a sequence of words and a number under optional/fallback, given fewer words than the sequence needs. ",
        "assumptions": COMMON_ASSUMPTIONS + [
            "Expected conversion messages are obtained by calling the same FromStr impls in the "
            "harness; items under catch() are skipped (documented opposite behaviour).",
            "Environment variables declared by generated definitions are unset except for the "
            "one variable a case sets to an invalid value (single-threaded shards).",
        ],
        "must_observe": ["class:invalid:conversion:adjacent-command-defaulted-word", "class:sentence-mostly-absent", "class:invalid:environment-variable",
                         "class:invalid:conversion:plain",
                         "class:invalid:guard:plain", "class:invalid:parse:plain",
                         "message-present"],
        "needs_hooks": True,
        "technique": "runtime monitoring: derivation-directed corruption oracle (class and "
                     "message text) over generated wrapper stacks",
        "level_text": "Held on the executions observed: no invalid value was masked by a default "
                      "and every message outside alternatives carried the expected text.",
        "level_note": "Trusted: the derivation generator and the fixed guard/parse predicates.",
    },
    "C07": {
        "cases": {"quick": 16000, "thorough": 480000},
        "rule": "Per case one definition with a choice of 2-4 alternatives with disjoint names "
                "(required flags, arguments, groups, soft alternatives that succeed on nothing, "
                "commands; bare, optional, defaulted, many, some) among other fields. Derivations "
                "using one alternative per round must yield exactly that alternative's value "
                "(repeated choices: values in command-line order); lines mixing items of two "
                "alternatives of a non-repeated choice must fail on stderr.  A third of the `many` choices are repeated choices between adjacent commands (`build --release test build`); a quarter of the repeated choices have an adjacent group among single flags, and a one-word alternative written inside its block must fail.  Every 24th case is a choice between a subcommand and a flag (`build --fast` must fail, `--fast build` is two values under `many`). " + DISTINCT + "  A flag of an accepted line moved between the name of an argument and its value must fail. ",
        "assumptions": COMMON_ASSUMPTIONS + [
            "Branches of repeated choices contain only required single-occurrence items (an "
            "optional member would legitimately take occurrences meant for a later round).",
        ],
        "must_observe": ["class:single:Bare", "class:single:Many", "class:mixed:Bare",
                         "class:mixed:Optional", "class:single:Bare+soft"],
        "needs_hooks": True,
        "technique": "runtime monitoring: derivation-directed oracle (winner and order known by "
                     "construction) + mixing mutator with must-fail expectation",
        "level_text": "Held on the executions observed for the generated choices and orders.",
        "level_note": "Trusted: the derivation generator's reading of the documented winner rule "
                      "(leftmost consumed item, ties to the first listed).",
    },
    "C08": {
        "cases": {"quick": 9600, "thorough": 320000},
        "rule": "Per case one command tree of depth <= 3 from the conventional fragment (names "
                "distinct across levels, aliases, optional commands). Sentences judged by "
                "derivation and recogniser; a deeper level's option moved left of its command "
                "name must fail; unknown / foreign / extra command names are judged by the "
                "recogniser; `path.. --help` must print the help carrying the unique header "
                "marker of exactly that level.  A fifth of the command choices sit under fallback/fallback_with.  Half of the trees have a version at the top level only: `--version`/`-V` behind a command name is an unknown flag there.  A sixth of the subcommands are hidden (their trees are written without clusters, F03); every 24th case is a chain of adjacent commands given nothing of their own. " + DISTINCT + "  In the chain scenario help behind a later command of the chain must describe that command. ",
        "assumptions": COMMON_ASSUMPTIONS + [
            "An enclosing level's option right of a command name is outside the quantifier and "
            "counted as inconclusive.",
        ],
        "must_observe": ["judged:sentence", "class:deeper-item-left-of-command-name",
                         "class:help-after-command-path", "entered-depth:2"],
        "needs_hooks": True,
        "technique": "runtime monitoring: reference-model monitor per command level + "
                     "derivation-directed oracle + misplacement mutators + help-level marker check",
        "level_text": "Held on the executions observed for the generated trees and placements.",
        "level_note": "Trusted: reference recogniser and derivation generator (cross-checked).",
    },
    "C09": {
        "cases": {"quick": 16000, "thorough": 480000},
        "rule": "Per case one definition with 0-3 positionals of every strictness/arity, named "
                "items and sometimes an optional subcommand. Derivations with `--` at every legal "
                "split; words right of it are replaced by dash-looking data (`--`, `--help`, "
                "declared names, command names) and must arrive verbatim; `--name --` must fail; "
                "moving the separator so that a strict word is on its left or a non-strict one on "
                "its right must fail.  Positionals under optional/repeating wrappers are hidden in a quarter of the cases; one definition in eight is `[LEFT-ONLY] .. -- RIGHT-ONLY...`; an absent or repeated left-side-only word does not close the strict words that follow.  The builder clones every other positional after restricting it.  A name-like surplus item right of `--` must not get a `did you mean`; every 32nd case is a `cargo_helper` parser with data spelled like the command word right of `--` (F44). " + DISTINCT + "  A quarter of the definitions carry fallback_to_usage. ",
        "assumptions": COMMON_ASSUMPTIONS,
        "must_observe": ["definitions-with-a-hidden-non-strict-positional", "class:sentence-hostile-words-after-separator",
                         "class:argument-name-then-separator",
                         "class:strict-word-left-of-separator",
                         "class:non-strict-word-right-of-separator"],
        "needs_hooks": True,
        "technique": "runtime monitoring: derivation-directed oracle with hostile positional data "
                     "and separator-moving mutators",
        "level_text": "Held on the executions observed.",
        "level_note": "Trusted: derivation generator (declaration-order assignment of words).",
    },
    "C10": {
        "cases": {"quick": 9600, "thorough": 240000},
        "rule": "Per case one random any-free definition (commands to depth 3, adjacent groups, "
                "custom help/version names, version configured or not) with a unique header per "
                "level. Base lines: valid derivations and invalid ones (unit dropped, doubled, "
                "foreign flag, corrupted number). The level's help or version item is inserted as "
                "its own item at every boundary left of `--` (including between an argument name "
                "and its value and inside adjacent blocks); outcome must be stdout carrying the "
                "header (or version) of the innermost entered level (for invalid base lines: of a "
                "level on the entered path).  Command choices may sit under fallback/fallback_with.  One case in 24 is a user argument named `-h`/`-V` next to a subcommand, written `-hVALUE`, with a help request on the line.  Chains of adjacent commands may be reduced with `last()`. " + DISTINCT + "  Trees also have hidden subcommands and subcommands under optional().catch(). ",
        "assumptions": COMMON_ASSUMPTIONS + [
            "No definition declares the same short letter as flag and argument, so the "
            "ambiguous-cluster exemption never applies.",
        ],
        "must_observe": ["won", "class:help:valid", "class:help:dropped-unit",
                         "class:help:valid:between-name-and-value", "depth:1"],
        "needs_hooks": True,
        "technique": "runtime monitoring: insertion monitor over valid/invalid/incomplete lines "
                     "with per-level marker identification",
        "level_text": "Held on the executions observed, except for the listed known findings.",
        "level_note": "Trusted: derivation generator and mutators (they decide which levels count "
                      "as entered).",
    },
    "C19": {
        "cases": {"quick": 16000, "thorough": 480000},
        "rule": "Per case one definition with 1-2 adjacent groups (flag + 1-3 positionals, flag or "
                "argument + named arguments with optional members, groups nested in groups, a "
                "nested plain tuple as first member; bare, optional, many) among "
                "named items and trailing positionals. Derivations with 0-3 contiguous blocks must "
                "yield one value per block in order; broken lines (foreign or declared item "
                "between members, required member moved away, word member written in front of the "
                "first item, cut short) are run and any value "
                "they yield is checked token by token: every block value must come from one "
                "contiguous run of items that starts at the group's first item; a block "
                "interrupted by an undeclared item must fail.  A name of a block written without its value in front of the next member (`--rect --w --h 2 7`) must fail. "
                + DISTINCT,
        "assumptions": COMMON_ASSUMPTIONS + [
            "Adjacent subcommand chains: sentences (value per command in command-line order) and "
            "two kinds of broken blocks (an outer item or an undeclared item inside a block).",
        ],
        "must_observe": ["class:contiguous-blocks:1", "class:contiguous-blocks:2",
                         "class:broken:interrupted-by-foreign-item",
                         "class:broken:required-member-moved-away",
                         "class:broken:word-member-in-front-of-first-item",
                         "adjacent-command-chain:2"],
        "needs_hooks": True,
        "technique": "runtime monitoring: derivation-directed oracle + contiguity checker over "
                     "unique tokens of every returned block value",
        "level_text": "Held on the executions observed.",
        "level_note": "Trusted: derivation generator; the contiguity checker maps returned tokens "
                      "back to argv positions (tokens are unique per line).",
    },
    "C11": {
        "cases": {"quick": 3200, "thorough": 48000},
        # a quarter of the cases again in a build with the dull-color feature (real processes
        # write to pipes there: no escape sequences may appear)
        "extra_variants": ["all"],
        "rule": "Per case one random definition compiled into the harness executable; the harness "
                "re-executes itself with argv[0] chosen freely (plain, path, non-ASCII, non-UTF-8 "
                "file name) and the vector (sentences, hostile values, byte noise incl. invalid "
                "UTF-8, help/version/completion requests) passed through the OS; the child calls "
                "OptionParser::run(). Parent prediction from run_inner(Args::from(argv)"
                ".set_name(file name)): status, stdout bytes, stderr bytes, sentinel iff value.  A quarter of the cases also ask a child for `--bpaf-complete-style-<shell>` somewhere on the line: the script on stdout, status 0, empty stderr, body not reached.  Items with a multi-byte character in front of a space are in the junk pool; when the in-process prediction panics the child is still run and must exit with status 0 or 1. "
                + DISTINCT,
        "assumptions": COMMON_ASSUMPTIONS + [
            "NUL bytes cannot be passed through the OS and are stripped from vectors.",
            "Short help (-h) at a non-default max_width cannot be predicted through the public "
            "API (Display always renders the full form) and is counted as inconclusive.",
            "--bpaf-complete-style-* (static stubs, process exits by design) is exercised by C15.",
        ],
        "must_observe": ["class:completion-script-request", "class:value", "class:stdout", "class:stderr", "class:completion",
                         "argv0:non-utf8"],
        "max_inconclusive_ratio": 0.2,
        "technique": "runtime monitoring at the process boundary: real child processes observed "
                     "(exit status, both streams) against an in-process prediction",
        "level_text": "Held on the child processes observed: status, stdout and stderr matched "
                      "the prediction byte for byte and the program body was reached iff a value "
                      "was produced.",
        "level_note": "Trusted: the child rebuilds the same definition from (seed, case) "
                      "coordinates; prediction uses bpaf's own Doc rendering (Display/monochrome).",
    },
    "C18": {
        "cases": {"quick": 4800, "thorough": 160000},
        "rule": "Per case one random definition whose flags/arguments declare environment "
                "variables (1-2 per item, some items environment-only) under every wrapper, at "
                "root and inside a command. Rounds: (A) random valid environment state x a "
                "derivation that knows the state (line beats variable, variable beats default, "
                "flags count as present when the variable is set, even empty); the same line with "
                "undeclared variables set must give the identical outcome; (B') the variable of an "
                "item that is on the line, set to a value that does not convert or that fails the "
                "item's guard, must not change the outcome - also through fallback under a "
                "repetition (B''); "
                "a quarter of the levels have fallback_to_usage (usage instead of a failure on an "
                "empty line, never instead of a value); with the state applied "
                "`--help` must show the first declared variable of every visible root item as "
                "set / valued exactly when the parser sees it set (empty counts as set); (B) an invalid value "
                "in the variable of an item absent from the line must fail with the conversion "
                "message; (C) a plain required item with item and variable absent must fail "
                "naming the item or the variable; (D) every 8th case is a group under "
                "optional/many/some/collect/last given only in part whose other required member "
                "(named or variable-only) is absent together with its variable: the run fails "
                "naming that member or variable, and succeeds once the variable is set; (E) an "
                "adjacent group led by a variable-backed argument (F40). Every 8th case is repeated in a child process "
                "whose environment comes from the OS. " + DISTINCT + "  Scenario (B'') also puts the repeated item into a choice. ",
        "assumptions": COMMON_ASSUMPTIONS + [
            "Shard processes are single-threaded, so set_var/remove_var between cases is safe.",
        ],
        "must_observe": ["class:invalid-variable-of-item-on-the-line", "class:line+environment", "help-variable-states-checked",
                         "line_and_variable(precedence)",
                         "variable_only(fallback)", "class:invalid-variable-value",
                         "class:item-and-variable-absent", "child-processes",
                         "class:half-given-group:optional:variable-only",
                         "class:half-given-group:variable-set"],
        "needs_hooks": True,
        "technique": "runtime monitoring: derivation-directed oracle over (line, environment) "
                     "pairs + metamorphic oracle for undeclared variables + child processes with "
                     "OS-provided environment",
        "level_text": "Held on the executions observed.",
        "level_note": "Trusted: derivation generator's model of the documented precedence.",
    },
    "C13": {
        "cases": {"quick": 480, "thorough": 12000},
        "rule": "Per case one random definition whose help/description/header/footer strings come "
                "from a grammar (1-3 paragraphs with markers, hard line breaks, indented code "
                "blocks, words of 1-200 characters, non-ASCII, tabs and control characters, long "
                "and lower-case metavariables). Documents: help of the root and of commands "
                "(short and full) and error documents for noise vectors with very long items. "
                "Each Doc is rendered at every width 1..=300 and unwrapped (width 60000); "
                "evaluations counts renderings. distinct_nontrivial = distinct (definition, "
                "vector, width) triples with a non-empty document. Arguments declare environment variables; in a third of the cases they are set to a text with an empty line and quotes while help is rendered. Closing fences may carry trailing blanks or a fourth backtick, with prose behind them.",
        "assumptions": COMMON_ASSUMPTIONS + [
            "Width is counted in characters (chars), as bpaf does; East Asian wide characters are "
            "not given double width.",
            "A long line is allowed when it is a code line of a generated help text, a single "
            "word after its indentation, or a known definition term followed by one word.",
        ],
        "must_observe": ["definitions-with-variables-set", "renderings", "doc:help", "doc:error", "short-help-texts-checked",
                         "overlong:single-word(allowed)"],
        "technique": "runtime monitoring: differential oracle between renderings of the same Doc "
                     "(wrapped vs unwrapped, whitespace-insensitive) + line classifier + "
                     "paragraph-marker check of the short form",
        "level_text": "Held on the renderings observed: 300 widths per document.",
        "level_note": "Trusted: the unwrapped rendering as the reference for content (it is "
                      "produced by the same renderer with an unreachable width).",
    },
    "C12": {
        "cases": {"quick": 6400, "thorough": 160000},
        "rule": "Per case one random definition (all shapes: wrappers, group_help, "
                "with_group_help, hidden parts, aliases, adjacent groups, alternatives, nested "
                "commands, custom help/version names, descr/header/footer) and, for every command "
                "level reachable by a path of command names, the level's --help rendered "
                "unwrapped and tokenised. Checked per level: visible items/commands listed with "
                "first names, metavariable, help; hidden items, aliases, undeclared terms absent; "
                "help/version flags; order of description/usage/header/lists/footer; item lists "
                "unchanged when hide_usage/custom_usage are removed; for shown names a sentence "
                "using exactly that spelling must be accepted. evaluations = help screens + "
                "acceptance runs; distinct_nontrivial = distinct (level, vector) pairs. Levels may be `construct!([named_only, cmd, words])`; every level's help is also requested through the root parser (`cmd sub --help`) and must list the terms of the level's own screen.",
        "assumptions": COMMON_ASSUMPTIONS + [
            "Names, metavariables and help strings are unique per item, so matching is exact.",
            "Members of adjacent groups without help text count as listed when they appear on "
            "the group's own usage line.",
        ],
        "must_observe": ["help-screens-through-the-root", "help-screens", "items-checked", "commands-checked",
                         "usage-wrapper-pairs", "shown-names-tried", "depth:1"],
        "technique": "runtime monitoring: output-protocol monitor (help-screen tokenizer) checked "
                     "against the definition's declared items + acceptance runs of shown names",
        "level_text": "Held on the help screens observed.",
        "level_note": "Trusted: the tokenizer's reading of the help layout (4-space term lines, "
                      "two-space gap before help text).",
    },
    "C16": {
        "cases": {"quick": 2400, "thorough": 64000},
        "rule": "Per case one random definition (nested commands to depth 3, groups, all "
                "wrappers, hidden parts) whose help/description/header/footer/group/metavariable "
                "strings carry unique markers and roff/HTML/markdown metacharacters at the start, "
                "after soft newlines, after hard line breaks and in later paragraphs; "
                "render_markdown, render_html and render_manpage are run and scanned: HTML "
                "tag-stack lexer (only bpaf's tags, balanced, no bare `>`), roff control-line "
                "classifier and escape scanner (only bpaf's requests/escapes), one section per "
                "visible level mentioning every visible item, no hidden item mentioned. "
                "evaluations = documents rendered; distinct_nontrivial = distinct (definition, "
                "format) pairs. Half of the definitions with two command subtrees give a nested command of the second the name and description of one in the first (`app remote add` / `app stash add`). Flags and arguments may be backed by environment variables." + "  Some item helps are written with the Doc API, styled fragments next to each other. ",
        "assumptions": COMMON_ASSUMPTIONS + [
            "groff/man/zsh are not installed: the manpage is judged lexically against the set of "
            "requests and escapes bpaf's renderer emits.",
        ],
        "must_observe": ["definitions-with-same-named-commands-on-different-paths", "rendered:markdown", "rendered:html", "rendered:manpage",
                         "html_tags_checked", "roff_control_lines_checked",
                         "roff_escapes_checked", "mentions-checked", "hidden-checked"],
        "technique": "runtime monitoring: output-protocol monitors (HTML tag-stack lexer, roff "
                     "line/escape lexer, section/mention scanner) over documents rendered from "
                     "generated definitions with hostile text",
        "level_text": "Held on the documents observed, except for listed known findings.",
        "level_note": "Trusted: the lexers' tables of bpaf's own tags, requests and escapes.",
    },
    "C14": {
        "cases": {"quick": 6400, "thorough": 240000},
        "rule": "Per case one random definition (flags, arguments with completers, positionals, "
                "shell completers, commands to depth 3, hidden parts, alternatives, adjacent "
                "groups); sentences are cut after k complete units and completion (revision 0) is "
                "requested with what is typed next: empty, `-`, `--`, a prefix of a visible long "
                "name, or the next item of the sentence cut short (names, values, words, command "
                "names, `name=` forms, value positions). Oracles: always completion output; every "
                "candidate explained by the definition; hidden names and names of commands not "
                "entered never offered; for fresh prefixes at item starts every visible, not yet "
                "given, top-level name of the active level that extends the prefix is offered.  Every 32nd case: alternatives whose names extend one another, the shorter one typed exactly (F42).  A sixth of the group titles are empty `Doc`s; every fourth request is repeated with `--bpaf-complete-rev=0` as an item of the line and must give the same answer. "
                + DISTINCT + "  A bare completer value is not applicable to a value glued to its short name (`-kpa`). ",
        "assumptions": COMMON_ASSUMPTIONS + [
            "strict() positionals are not generated (next to them bpaf offers a `--` hint the "
            "statement does not mention either way).",
            "Completeness is demanded only for names sitting directly in the level's sequence "
            "(not inside alternatives whose sibling may have been taken, not in adjacent groups).",
        ],
        "must_observe": ["outcome:completion", "typed:item-start", "typed:value-position",
                         "explained:visible-name", "explained:visible-command",
                         "explained:completer-value", "completeness-demands"],
        "technique": "runtime monitoring: output-protocol monitor (revision-0 candidate parser) "
                     "with soundness and completeness oracles derived from the definition",
        "level_text": "Held on the completion requests observed, known findings aside.",
        "level_note": "Trusted: the harness's reading of which names are visible/entered.",
    },
    "C15": {
        "cases": {"quick": 480, "thorough": 12000},
        "rule": "Per case one random definition (completers with descriptions and groups, "
                "complete_shell File/Dir/Raw/Nothing with masks, group_help, commands) whose help, "
                "group and mask strings carry quotes, backslashes, `$(canary)`, backticks, `;`, "
                "`>`; partially typed lines whose last word comes from a hostile pool (command "
                "substitution, `;`, `|`, `&&`, redirection, newline, quotes, globs, non-ASCII). "
                "For each line revisions 1/7/8/9 are rendered with and without application name. "
                "Bash and zsh output is executed in a sandboxed bash (recording stubs, empty PATH, "
                "command_not_found_handle, canaries, scratch directory) and the recovered "
                "COMPREPLY/compadd/_filedir/_files data is compared with the revision-0 "
                "candidates and completers (each exactly once); fish/elvish output is compared "
                "line by line and must carry a directive for every requested completer (F38/F39); "
                "help texts include one line of 120 columns; "
                "every 8th case the static --bpaf-complete-style-* stubs are obtained "
                "from a child process (exit 0, program name embedded, `bash -n` for bash/zsh). "
                "evaluations = scripts judged. " + DISTINCT,
        "assumptions": COMMON_ASSUMPTIONS + [
            "zsh, fish and elvish are not installed: zsh directives (compadd, _files, local -a, "
            "descr=(..)) are executed under bash with stubs - they use only single-quote quoting, "
            "which bash lexes identically; fish/elvish line protocols are lexed.",
            "ShellComp::Raw strings are shell code supplied by the author and are kept valid.",
        ],
        "must_observe": ["rev:1", "rev:7", "rev:8", "rev:9", "scripts_executed_in_bash",
                         "shape:echo-typed-word", "shape:candidates",
                         "shape:candidates+completer", "static-stubs-checked"],
        "technique": "runtime monitoring: the emitted directives are executed by a real, "
                     "sandboxed bash with recording stubs and canaries (output-protocol monitor), "
                     "plus line/field lexers for fish and elvish",
        "level_text": "Held on the scripts executed/lexed, known findings aside.",
        "level_note": "Trusted: bash as the interpreter of both bash and zsh directives; the "
                      "expected effects are derived from bpaf's own revision-0 candidate list.",
    },
    "C20": {
        "special": "c20",
        "cases": {"quick": 3000, "thorough": 120000},
        "rule": "A seeded corpus of (definition, vector) pairs is run by five builds of the harness "
                "(bpaf features: none; autocomplete; autocomplete+docgen+batteries; dull-color; "
                "bright-color), each printing one line per execution with the normalised outcome "
                "(value, monochrome help text, error text); the streams are compared line by "
                "line against the no-feature build. The corpus contains what the cfg(feature) "
                "blocks touch: a short letter declared both as flag and argument (ambiguous "
                "clusters), help/description strings with code fences, indented code and several "
                "paragraphs, group_help, hidden items, completers, and vectors ending in ``, `-`, "
                "`--`. evaluations = executions over all builds; distinct_nontrivial = distinct "
                "lines of the reference stream. One corpus definition in six has a command reachable from two branches that differ only in the footer. For failures the corpus also records the bytes `print_message` writes to file descriptor 2." + "  Calls of the user's completion function are part of the compared outcome stream. ",
        "assumptions": [
            "Built from /repo's working tree in release mode with overflow-checks; hooks are not "
            "compiled into these variants (cfg(bpaf_verif) off), so the comparison is between "
            "builds a user could produce.",
            "The derive feature only adds a re-export and is covered by the `full` variant used "
            "for witnesses; colour builds render with Doc::monochrome.",
            "Vectors containing --bpaf-complete-* are outside the quantifier and not generated.",
        ],
        "must_observe": ["lines_compared", "outcome:value", "outcome:stdout", "outcome:stderr"],
        "technique": "runtime monitoring: differential oracle over outcome streams of five "
                     "feature builds running the same seeded workload",
        "level_text": "Held on the corpus observed: every build printed the same outcome for "
                      "every (definition, vector) pair, known findings aside.",
        "level_note": "Trusted: the emitter uses only API present in every build; the corpus "
                      "generator is deterministic in (seed, case).",
    },
    "C17": {
        "special": "c17",
        "engine": "derive_gen",
        "cases": {"quick": (2, 200), "thorough": (12, 400)},
        "rule": "bin/derive_gen.py emits, from a seed, a crate of struct/enum definitions carrying "
                "#[derive(Bpaf)] (implicit and explicit short/long/env names, kebab-case "
                "conversion, single-letter names, bool/()/Option/Vec/plain fields, explicit "
                "argument/positional/switch/flag/req_flag consumers, turbofish, "
                "fallback/guard/optional/many/some/count/catch/hide/hide_usage/group_help, doc "
                "comments as help, descr/header/footer blocks and explicit descr/header/footer "
                "annotations, version, tuple structs, unit variants, field variants, tuple "
                "variants, command variants with custom names and aliases, skipped variants, "
                "explicit header/footer on command variants, "
                "top-level command structs with short/long/help/adjacent/fallback_to_usage and "
                "fallback/hide/hide_usage/custom_usage decorations used through external, "
                "nested derived enums through external) together with the hand-written combinator equivalent produced by an "
                "independent implementation of the documented rules. The crate is compiled against "
                "/repo and both parsers of every type are run on the same vectors (valid lines, "
                "omissions, duplicates, bad values, wrong-case / underscore / truncated names, "
                "help, version); value (Debug + PartialEq), failure class and text must agree. "
                "evaluations = run_inner calls (two per vector); distinct_nontrivial = distinct "
                "(type, vector) pairs.",
        "assumptions": [
            "The hand-written side implements the rules as documented (src/params.rs 'Derive "
            "usage', _documentation::_2_derive_api), not the macro's source.",
            "Annotation combinations the macro rejects at compile time are not generated; a crate "
            "that fails to compile makes the check inconclusive, not violated.",
            "bpaf is built from /repo's working tree (debug profile, overflow checks on).",
        ],
        "must_observe": ["types", "structs", "enums", "decorated_top_level_commands",
                         "outcome:value", "outcome:stdout", "outcome:stderr"],
        "technique": "runtime monitoring: differential oracle between two real parsers (derive "
                     "macro output vs independently written combinators) over generated types and "
                     "vectors",
        "level_text": "Held on the generated family observed: every derived parser agreed with "
                      "its documented hand-written equivalent on every vector.",
        "level_note": "Trusted: the generator's independent translation of the documented rules; "
                      "rustc and the proc-macro expansion are part of the system under test.",
    },
}
