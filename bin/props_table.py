"""Per-property configuration for bin/check: budgets (in cases), evidence rule text, assumptions,
and what a run must have observed before "held" may be reported."""

COMMON_ASSUMPTIONS = [
    "Verdict covers only the executions listed in coverage: definitions come from the harness's "
    "Spec generators (at most 12 fields per group, command depth <= 3, vectors <= ~45 items).",
    "bpaf is built from /repo's working tree in release mode with overflow-checks and "
    "debug-assertions on; hooks are compiled in with --cfg bpaf_verif.",
]

DISTINCT = ("distinct_nontrivial = number of distinct (definition hash, mode, argument vector) "
            "triples with a non-empty vector, counted with hash sets merged across shards.")

PROPS = {
    "C01": {
        "cases": {"quick": 480, "thorough": 24000},
        "rule": "Per case one random definition of the conventional fragment (0-8 named items of "
                "every arity, positional suffix or command tree up to 3 levels, aliases). Vectors: "
                "derivations in random order/spelling (value known by construction), single-edit "
                "mutations of them and random vectors over the definition's alphabet, both judged "
                "by an independent reference recogniser. " + DISTINCT,
        "assumptions": COMMON_ASSUMPTIONS + [
            "The reference recogniser encodes the documented surface syntax; vectors that hit the "
            "two carve-outs of the quantifier are counted as inconclusive, not judged.",
        ],
        "must_observe": ["judged:sentence", "judged:model-accept", "judged:model-reject"],
        "needs_hooks": True,
        "technique": "runtime monitoring: reference-model monitor (independent recogniser) + "
                     "derivation-directed oracle over generated definitions x vectors; ledger "
                     "invariant hook",
        "level_text": "Held on the executions observed: tens of thousands (quick) to millions "
                      "(thorough) of run_inner calls on generated conventional definitions, each "
                      "judged by an executable model of the documented grammar and, for "
                      "sentences, by the value the derivation denotes. Exploration, not proof: "
                      "shapes the generator cannot produce are not covered.",
        "level_note": "Trusted: the harness's reference recogniser and derivation generator "
                      "(cross-checked against each other on every sentence; disagreement is "
                      "inconclusive, not a verdict), rustc, std.",
    },
    "C04": {
        "cases": {"quick": 640, "thorough": 40000},
        "rule": "Per case one random definition of any invariant-respecting shape x byte-string "
                "vectors (noise over the definition's names, junk items, invalid UTF-8, 1-4 KiB "
                "clusters, sentences with hostile values) x modes {parse, completion revisions "
                "0/1/7/8/9 with/without application name} plus markdown/html/manpage rendering; "
                "every execution runs under catch_unwind with a fuel budget and is repeated three "
                "times (again, after unrelated runs, fresh parser) and compared. " + DISTINCT,
        "assumptions": COMMON_ASSUMPTIONS + [
            "Termination is decided on a logical step counter (fuel = 10000 x (items+1) x "
            "(spec nodes+1)), never on wall-clock time.",
            "Unknown completion revisions and --bpaf-complete-style-* exit the process by design "
            "and are outside the quantifier.",
        ],
        "must_observe": ["mode:parse", "mode:complete-rev9", "mode:manpage", "purity_reruns"],
        "needs_hooks": True,
        "death_is_violation": True,
        "technique": "runtime monitoring: catch_unwind + overflow/debug-assertion instrumentation "
                     "+ fuel hook (logical step counter) + repeated-run purity oracle over "
                     "byte-noise workloads in every mode",
        "level_text": "Held on the executions observed: every (definition, vector, mode) triple "
                      "returned normally within the step budget and gave the same outcome on "
                      "four runs. A shard process that dies is attributed to the case it was "
                      "running and reported as a violation.",
        "level_note": "Trusted: the fuel budget is 3-4 orders of magnitude above what terminating "
                      "runs use (maximum observed is in the evidence); purity is compared on "
                      "normalised outcomes (value, monochrome text).",
    },
    "C02": {
        "cases": {"quick": 960, "thorough": 48000},
        "rule": "Per case one random any-free definition (hidden items, aliases, non-ASCII names, "
                "adjacent-restricted arguments, groups, commands) x derivations with hostile "
                "values (empty, `=`, leading dashes, spaces, non-ASCII, invalid UTF-8 for "
                "OS-string/path targets); each derivation is run in its canonical spelling and in "
                "random respellings of the same units in the same order (five argument spellings, "
                "aliases, clusters, cluster ending in a short argument); outcomes of the pair are "
                "compared, values compared byte-exact with the derivation. " + DISTINCT,
        "assumptions": COMMON_ASSUMPTIONS + [
            "Spellings the statement does not list as interchangeable are not generated: "
            "`-ab=VALUE`, `-nVALUE` with an empty value or one starting with `=`, detached values "
            "starting with `-`.",
            "For failing lines only the outcome class is compared (error text quotes the spelling).",
        ],
        "must_observe": ["pairs", "spell:LongEq", "spell:ShortJoined", "spell:ShortEq",
                         "spell:clusters"],
        "needs_hooks": True,
        "technique": "runtime monitoring: metamorphic oracle over pairs of real runs (respelling) "
                     "+ derivation-directed byte-exact value oracle; violations are decomposed "
                     "into single-spelling substitutions for attribution",
        "level_text": "Held on the executions observed: every respelled pair gave the same "
                      "outcome and every accepted canonical line returned exactly the bytes "
                      "written, for the definitions and value payloads generated.",
        "level_note": "Trusted: the derivation generator's notion of which spellings are "
                      "interchangeable (taken from the statement and src/params.rs docs).",
    },
    "C03": {
        "cases": {"quick": 960, "thorough": 48000},
        "rule": "Per case one random definition without any/adjacent groups x derivations (valid, "
                "and invalid ones with an occurrence dropped, doubled or a foreign flag added); "
                "each is linearised in canonical order and in random permutations of its named "
                "occurrences that keep same-field order, positional order and the side of "
                "command names and `--`; spelling is identical in both lines. " + DISTINCT,
        "assumptions": COMMON_ASSUMPTIONS + [
            "For two failing lines only the outcome class is compared (the message may name a "
            "different item); differing texts are counted, not judged.",
        ],
        "must_observe": ["pairs", "placement:named-between-positionals",
                         "placement:named-after-positional"],
        "needs_hooks": True,
        "technique": "runtime monitoring: metamorphic oracle over pairs of real runs "
                     "(permutation of named occurrences) + derivation-directed value oracle",
        "level_text": "Held on the executions observed: canonical order and every sampled "
                      "permutation gave equal outcomes.",
        "level_note": "Trusted: order_units produces only permutations the statement allows.",
    },
    "C05": {
        "cases": {"quick": 960, "thorough": 48000},
        "rule": "Per case one random any-free definition x accepted derivations; every accepted "
                "line must return exactly the denoted value (conservation/attribution with unique "
                "tokens) and, with one foreign flag / `--name=value` / surplus word / duplicate "
                "of a single-use occurrence / `=junk` on a flag inserted at the item boundaries "
                "left of `--`, must fail on stderr. Hooks: the outermost accept event must show "
                "every item consumed; cached remaining count must equal the ledger at every "
                "remove/set_scope. " + DISTINCT,
        "assumptions": COMMON_ASSUMPTIONS + [
            "Surplus words are only inserted where the active level declares no positional or "
            "command at all (elsewhere a word may legitimately be claimed).",
        ],
        "must_observe": ["class:accepted-line", "class:insert:foreign-long",
                         "class:insert:foreign-short", "class:insert:flag-with-value",
                         "class:insert:duplicate-flag", "accept_ledgers_checked"],
        "needs_hooks": True,
        "technique": "runtime monitoring: derivation-directed insertion oracle + conservation "
                     "oracle on unique tokens + invariant hooks on the consumption ledger "
                     "(accept event, remaining-count check)",
        "level_text": "Held on the executions observed: no inserted item slipped through, every "
                      "accepted line was attributed exactly, and the ledger hooks saw no "
                      "unconsumed item behind a returned value.",
        "level_note": "Trusted: the hooks read bpaf's own ItemState ledger at the point "
                      "run_subparser returns Ok.",
    },
    "C06": {
        "cases": {"quick": 960, "thorough": 48000},
        "rule": "Per case one random definition with typed (u32/i64/String/OsString) arguments "
                "and positionals under optional/many/some/fallback/fallback_with/count/last, guard "
                "and parse steps, nested in alternatives, adjacent groups and commands. Accepted "
                "derivations (alternately mostly-absent and mostly-present) must yield the denoted "
                "value; then every typed occurrence is replaced, one at a time, by every kind of "
                "invalid text (non-numeric, empty, `1x`, `-`, overflow, invalid UTF-8, "
                "guard-tripping, parse-tripping) and the run must fail on stderr, with the "
                "conversion/guard/parse message in the text unless the item is inside a choice. "
                + DISTINCT,
        "assumptions": COMMON_ASSUMPTIONS + [
            "Expected conversion messages are obtained by calling the same FromStr impls in the "
            "harness; items under catch() are skipped (documented opposite behaviour).",
            "Environment variables declared by generated definitions are unset.",
        ],
        "must_observe": ["class:sentence-mostly-absent", "class:invalid:conversion:plain",
                         "class:invalid:guard:plain", "class:invalid:parse:plain",
                         "message-present"],
        "needs_hooks": True,
        "technique": "runtime monitoring: derivation-directed corruption oracle (class and "
                     "message text) over generated wrapper stacks",
        "level_text": "Held on the executions observed: no invalid value was masked by a default "
                      "and every message outside alternatives carried the expected text.",
        "level_note": "Trusted: the derivation generator and the fixed guard/parse predicates.",
    },
    "C07": {
        "cases": {"quick": 1600, "thorough": 64000},
        "rule": "Per case one definition with a choice of 2-4 alternatives with disjoint names "
                "(required flags, arguments, groups, soft alternatives that succeed on nothing, "
                "commands; bare, optional, defaulted, many, some) among other fields. Derivations "
                "using one alternative per round must yield exactly that alternative's value "
                "(repeated choices: values in command-line order); lines mixing items of two "
                "alternatives of a non-repeated choice must fail on stderr. " + DISTINCT,
        "assumptions": COMMON_ASSUMPTIONS + [
            "Branches of repeated choices contain only required single-occurrence items (an "
            "optional member would legitimately take occurrences meant for a later round).",
        ],
        "must_observe": ["class:single:Bare", "class:single:Many", "class:mixed:Bare",
                         "class:mixed:Optional", "class:single:Bare+soft"],
        "needs_hooks": True,
        "technique": "runtime monitoring: derivation-directed oracle (winner and order known by "
                     "construction) + mixing mutator with must-fail expectation",
        "level_text": "Held on the executions observed for the generated choices and orders.",
        "level_note": "Trusted: the derivation generator's reading of the documented winner rule "
                      "(leftmost consumed item, ties to the first listed).",
    },
    "C08": {
        "cases": {"quick": 960, "thorough": 48000},
        "rule": "Per case one command tree of depth <= 3 from the conventional fragment (names "
                "distinct across levels, aliases, optional commands). Sentences judged by "
                "derivation and recogniser; a deeper level's option moved left of its command "
                "name must fail; unknown / foreign / extra command names are judged by the "
                "recogniser; `path.. --help` must print the help carrying the unique header "
                "marker of exactly that level. " + DISTINCT,
        "assumptions": COMMON_ASSUMPTIONS + [
            "An enclosing level's option right of a command name is outside the quantifier and "
            "counted as inconclusive.",
        ],
        "must_observe": ["judged:sentence", "class:deeper-item-left-of-command-name",
                         "class:help-after-command-path", "entered-depth:2"],
        "needs_hooks": True,
        "technique": "runtime monitoring: reference-model monitor per command level + "
                     "derivation-directed oracle + misplacement mutators + help-level marker check",
        "level_text": "Held on the executions observed for the generated trees and placements.",
        "level_note": "Trusted: reference recogniser and derivation generator (cross-checked).",
    },
    "C09": {
        "cases": {"quick": 1600, "thorough": 64000},
        "rule": "Per case one definition with 0-3 positionals of every strictness/arity, named "
                "items and sometimes an optional subcommand. Derivations with `--` at every legal "
                "split; words right of it are replaced by dash-looking data (`--`, `--help`, "
                "declared names, command names) and must arrive verbatim; `--name --` must fail; "
                "moving the separator so that a strict word is on its left or a non-strict one on "
                "its right must fail. " + DISTINCT,
        "assumptions": COMMON_ASSUMPTIONS,
        "must_observe": ["class:sentence-hostile-words-after-separator",
                         "class:argument-name-then-separator",
                         "class:strict-word-left-of-separator",
                         "class:non-strict-word-right-of-separator"],
        "needs_hooks": True,
        "technique": "runtime monitoring: derivation-directed oracle with hostile positional data "
                     "and separator-moving mutators",
        "level_text": "Held on the executions observed.",
        "level_note": "Trusted: derivation generator (declaration-order assignment of words).",
    },
    "C10": {
        "cases": {"quick": 960, "thorough": 48000},
        "rule": "Per case one random any-free definition (commands to depth 3, adjacent groups, "
                "custom help/version names, version configured or not) with a unique header per "
                "level. Base lines: valid derivations and invalid ones (unit dropped, doubled, "
                "foreign flag, corrupted number). The level's help or version item is inserted as "
                "its own item at every boundary left of `--` (including between an argument name "
                "and its value and inside adjacent blocks); outcome must be stdout carrying the "
                "header (or version) of the innermost entered level (for invalid base lines: of a "
                "level on the entered path). " + DISTINCT,
        "assumptions": COMMON_ASSUMPTIONS + [
            "No definition declares the same short letter as flag and argument, so the "
            "ambiguous-cluster exemption never applies.",
        ],
        "must_observe": ["won", "class:help:valid", "class:help:dropped-unit",
                         "class:help:valid:between-name-and-value", "depth:1"],
        "needs_hooks": True,
        "technique": "runtime monitoring: insertion monitor over valid/invalid/incomplete lines "
                     "with per-level marker identification",
        "level_text": "Held on the executions observed, except for the listed known findings.",
        "level_note": "Trusted: derivation generator and mutators (they decide which levels count "
                      "as entered).",
    },
    "C19": {
        "cases": {"quick": 1600, "thorough": 64000},
        "rule": "Per case one definition with 1-2 adjacent groups (flag + 1-3 positionals, flag or "
                "argument + named arguments with optional members; bare, optional, many) among "
                "named items and trailing positionals. Derivations with 0-3 contiguous blocks must "
                "yield one value per block in order; broken lines (foreign or declared item "
                "between members, required member moved away, cut short) are run and any value "
                "they yield is checked token by token: every block value must come from one "
                "contiguous run of items; a block interrupted by an undeclared item must fail. "
                + DISTINCT,
        "assumptions": COMMON_ASSUMPTIONS + [
            "Adjacent subcommand chains are exercised by C04 only.",
        ],
        "must_observe": ["class:contiguous-blocks:1", "class:contiguous-blocks:2",
                         "class:broken:interrupted-by-foreign-item",
                         "class:broken:required-member-moved-away"],
        "needs_hooks": True,
        "technique": "runtime monitoring: derivation-directed oracle + contiguity checker over "
                     "unique tokens of every returned block value",
        "level_text": "Held on the executions observed.",
        "level_note": "Trusted: derivation generator; the contiguity checker maps returned tokens "
                      "back to argv positions (tokens are unique per line).",
    },
}
