"""Checks whose flow differs from the sharded in-harness monitors: C20 (feature builds), C17."""
import json
import os
import subprocess
import sys
import time

import lib
from props_table import PROPS

VARIANTS = ["none", "ac", "acdocbat", "dull", "bright"]


def c20(prop, tier, seed):
    t0 = time.time()
    cfg = PROPS[prop]
    bins = {}
    for v in VARIANTS + ["full"]:
        b = lib.build(v)
        if b is None:
            lib.say("INCONCLUSIVE property=%s reason=build of variant %s failed" % (prop, v))
            return 2
        bins[v] = b
    wd = lib.workdir(prop)
    cases = cfg["cases"][tier]
    nsh = 3  # shards per variant: 15 processes in flight
    procs = []
    for v in VARIANTS:
        for k in range(nsh):
            out = os.path.join(wd, "%s.%d.jsonl" % (v, k))
            cmd = [bins[v], "emit", "--seed", str(seed), "--cases", str(cases), "--shard",
                   "%d/%d" % (k, nsh), "--out", out]
            procs.append((v, k, out, subprocess.Popen(cmd, env=lib.ENV, stdout=subprocess.PIPE,
                                                      stderr=subprocess.DEVNULL, text=True)))
    summaries = {}
    for v, k, out, p in procs:
        try:
            so, _ = p.communicate(timeout=7200)
        except subprocess.TimeoutExpired:
            p.kill()
            lib.say("INCONCLUSIVE property=%s reason=watchdog fired for variant %s" % (prop, v))
            return 2
        if p.returncode != 0:
            lib.say("INCONCLUSIVE property=%s reason=emitter of variant %s died rc=%s"
                    % (prop, v, p.returncode))
            return 2
        summaries[(v, k)] = json.loads(so.strip().splitlines()[-1])

    executions = sum(s["executions"] for s in summaries.values())
    classes = {}
    for (v, k), s in summaries.items():
        if v == "none":
            for c, n in s["classes"].items():
                classes[c] = classes.get(c, 0) + n
    compared = 0
    distinct = set()
    by_sig = {}
    violations = []
    samples = []
    for k in range(nsh):
        streams = {}
        for v in VARIANTS:
            with open(os.path.join(wd, "%s.%d.jsonl" % (v, k))) as f:
                streams[v] = f.read().splitlines()
        n = len(streams["none"])
        for v in VARIANTS:
            if len(streams[v]) != n:
                lib.say("INCONCLUSIVE property=%s reason=stream lengths differ" % prop)
                return 2
        for i in range(n):
            base = streams["none"][i]
            compared += 1
            if i % 997 == 0 and len(samples) < 5:
                samples.append(json.loads(base))
            distinct.add(hash(base))
            differing = [v for v in VARIANTS if streams[v][i] != base]
            if not differing:
                continue
            rec = json.loads(base)
            outs = {v: json.loads(streams[v][i])["outcome"] for v in VARIANTS}
            facts = rec.get("facts", [])
            groups = {}
            for v in VARIANTS:
                groups.setdefault(outs[v], []).append(v)
            split = " | ".join(sorted("+".join(vs) for vs in groups.values()))
            sig = "feature-divergence:%s:%s" % ("+".join(facts) if facts else "no-known-fact", split)
            by_sig[sig] = by_sig.get(sig, 0) + 1
            if sum(1 for x in violations if x["signature"] == sig) < 3:
                violations.append({"signature": sig, "clause": "outcome-streams", "case": rec["case"],
                                   "detail": {"argv": rec["argv"], "vector": rec["vector"],
                                              "facts": facts, "outcomes": outs}})
    merged = {"evaluations": executions, "counters": {"lines_compared": compared,
                                                       "variants": len(VARIANTS),
                                                       **{"outcome:" + c: n for c, n in classes.items()}},
              "maxima": {}, "inconclusive": {}, "by_signature": by_sig,
              "violation_count": sum(by_sig.values()), "samples": samples,
              "violations": violations, "cases_done": cases, "hooks": False}
    return lib.finish(prop, tier, seed, bins["full"], merged, len(distinct), cases, t0)


def c20_replay(prop, r):
    for v in VARIANTS:
        b = lib.build(v)
        out = os.path.join(lib.VERIF, "work", "replay.%s.jsonl" % v)
        os.makedirs(os.path.dirname(out), exist_ok=True)
        subprocess.run([b, "emit", "--seed", str(r["seed"]), "--only-case", str(r["case"]),
                        "--out", out], env=lib.ENV, stdout=subprocess.DEVNULL)
        lines = open(out).read().splitlines()
        vec = r["detail"].get("vector", 0)
        lib.say("%-9s %s" % (v, json.loads(lines[vec])["outcome"][:600]))
    outs = set()
    for v in VARIANTS:
        lines = open(os.path.join(lib.VERIF, "work", "replay.%s.jsonl" % v)).read().splitlines()
        outs.add(json.loads(lines[r["detail"].get("vector", 0)])["outcome"])
    if len(outs) > 1:
        return 1
    return 0


def _c17_round(seed, n_types, wd, k):
    """generate, build and run one derive-case crate; returns (meta, summary, mismatches)"""
    crate = os.path.join(wd, "crate%d" % k)
    gen = subprocess.run([sys.executable, os.path.join(lib.VERIF, "bin", "derive_gen.py"),
                          str(seed), str(n_types), crate], stdout=subprocess.PIPE, text=True)
    if gen.returncode != 0:
        return None, "generator failed", None
    meta = json.loads(gen.stdout.strip().splitlines()[-1])
    try:
        import shutil
        shutil.copy(os.path.join(lib.REPO, "Cargo.lock"), os.path.join(crate, "Cargo.lock"))
    except OSError:
        pass
    env = dict(lib.ENV)
    env["CARGO_TARGET_DIR"] = os.path.join(lib.VERIF, "target", "derive")
    env["RUSTFLAGS"] = ""
    b = subprocess.run(["cargo", "build", "--offline", "--manifest-path",
                        os.path.join(crate, "Cargo.toml")], env=env, stdout=subprocess.PIPE,
                       stderr=subprocess.STDOUT, text=True)
    if b.returncode != 0:
        sys.stderr.write(b.stdout[-4000:])
        return meta, "generated crate does not compile", None
    r = subprocess.run([os.path.join(env["CARGO_TARGET_DIR"], "debug", "derive-case")],
                       stdout=subprocess.PIPE, stderr=subprocess.DEVNULL, text=True, env=lib.ENV)
    summary, mism = None, []
    for line in r.stdout.splitlines():
        try:
            j = json.loads(line)
        except ValueError:
            continue
        if j.get("summary"):
            summary = j
        else:
            mism.append(j)
    if summary is None:
        return meta, "runner died rc=%s" % r.returncode, None
    return meta, summary, mism


def c17(prop, tier, seed):
    t0 = time.time()
    cfg = PROPS[prop]
    full = lib.build("full")
    if full is None:
        lib.say("INCONCLUSIVE property=%s reason=harness build failed" % prop)
        return 2
    wd = lib.workdir(prop)
    rounds, n_types = cfg["cases"][tier]
    tot = {"runs": 0, "values": 0, "stdout": 0, "stderr": 0}
    types = structs = enums = topcmds = 0
    by_sig, violations, samples = {}, [], []
    for k in range(rounds):
        rseed = seed * 1000 + k
        meta, summary, mism = _c17_round(rseed, n_types, wd, k)
        if mism is None:
            lib.say("INCONCLUSIVE property=%s reason=%s (generator seed %d)" % (prop, summary, rseed))
            return 2
        types += meta["types"]
        structs += meta["structs"]
        enums += meta["enums"]
        topcmds += meta.get("decorated_commands", 0)
        for key in tot:
            tot[key] += summary[key]
        for m in mism:
            sig = "derive-differs:%s-vs-%s" % (m["derived"][0], m["manual"][0])
            by_sig[sig] = by_sig.get(sig, 0) + 1
            if sum(1 for v in violations if v["signature"] == sig) < 3:
                violations.append({"signature": sig, "clause": "derive-vs-combinators",
                                   "case": rseed,
                                   "detail": {"generator_seed": rseed, "n_types": n_types,
                                              "type": m["type"], "argv": m["argv"],
                                              "derived": m["derived"], "manual": m["manual"]}})
        if k == 0:
            # a few generated definitions as samples
            src = open(os.path.join(wd, "crate0", "src", "main.rs")).read()
            at = src.find("#[derive(Debug, Clone, PartialEq, Bpaf)]")
            samples.append({"generated_source_excerpt": src[at:at + 1500]})
    merged = {"evaluations": tot["runs"] * 2,
              "counters": {"types": types, "structs": structs, "enums": enums,
                           "decorated_top_level_commands": topcmds,
                           "vector_runs": tot["runs"], "outcome:value": tot["values"],
                           "outcome:stdout": tot["stdout"], "outcome:stderr": tot["stderr"],
                           "crates_compiled": rounds},
              "maxima": {}, "inconclusive": {}, "by_signature": by_sig,
              "violation_count": sum(by_sig.values()), "samples": samples,
              "violations": violations, "cases_done": types, "hooks": False}
    return lib.finish(prop, tier, seed, full, merged, tot["runs"], types, t0)


def c17_replay(prop, r):
    d = r["detail"]
    wd = os.path.join(lib.VERIF, "work", "C17replay")
    os.makedirs(wd, exist_ok=True)
    meta, summary, mism = _c17_round(d["generator_seed"], d["n_types"], wd, 0)
    if mism is None:
        lib.say("replay failed: %s" % summary)
        return 2
    hit = [m for m in mism if m["type"] == d["type"] and m["argv"] == d["argv"]]
    for m in hit:
        lib.say(json.dumps(m, indent=1)[:3000])
    return 1 if hit else 0
