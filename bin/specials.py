"""Checks whose flow differs from the sharded in-harness monitors: C20 (feature builds), C17."""
import json
import os
import subprocess
import sys
import time

import lib
from props_table import PROPS

VARIANTS = ["none", "ac", "acdocbat", "dull", "bright"]


def c20(prop, tier, seed):
    t0 = time.time()
    cfg = PROPS[prop]
    bins = {}
    for v in VARIANTS + ["full"]:
        b = lib.build(v)
        if b is None:
            lib.say("INCONCLUSIVE property=%s reason=build of variant %s failed" % (prop, v))
            return 2
        bins[v] = b
    wd = lib.workdir(prop)
    cases = cfg["cases"][tier]
    nsh = 3  # shards per variant: 15 processes in flight
    procs = []
    for v in VARIANTS:
        for k in range(nsh):
            out = os.path.join(wd, "%s.%d.jsonl" % (v, k))
            cmd = [bins[v], "emit", "--seed", str(seed), "--cases", str(cases), "--shard",
                   "%d/%d" % (k, nsh), "--out", out]
            procs.append((v, k, out, subprocess.Popen(cmd, env=lib.ENV, stdout=subprocess.PIPE,
                                                      stderr=subprocess.DEVNULL, text=True)))
    summaries = {}
    for v, k, out, p in procs:
        try:
            so, _ = p.communicate(timeout=7200)
        except subprocess.TimeoutExpired:
            p.kill()
            lib.say("INCONCLUSIVE property=%s reason=watchdog fired for variant %s" % (prop, v))
            return 2
        if p.returncode != 0:
            lib.say("INCONCLUSIVE property=%s reason=emitter of variant %s died rc=%s"
                    % (prop, v, p.returncode))
            return 2
        summaries[(v, k)] = json.loads(so.strip().splitlines()[-1])

    executions = sum(s["executions"] for s in summaries.values())
    classes = {}
    for (v, k), s in summaries.items():
        if v == "none":
            for c, n in s["classes"].items():
                classes[c] = classes.get(c, 0) + n
    compared = 0
    distinct = set()
    by_sig = {}
    violations = []
    samples = []
    for k in range(nsh):
        streams = {}
        for v in VARIANTS:
            with open(os.path.join(wd, "%s.%d.jsonl" % (v, k))) as f:
                streams[v] = f.read().splitlines()
        n = len(streams["none"])
        for v in VARIANTS:
            if len(streams[v]) != n:
                lib.say("INCONCLUSIVE property=%s reason=stream lengths differ" % prop)
                return 2
        for i in range(n):
            base = streams["none"][i]
            compared += 1
            if i % 997 == 0 and len(samples) < 5:
                samples.append(json.loads(base))
            distinct.add(hash(base))
            differing = [v for v in VARIANTS if streams[v][i] != base]
            if not differing:
                continue
            rec = json.loads(base)
            outs = {v: json.loads(streams[v][i])["outcome"] for v in VARIANTS}
            facts = rec.get("facts", [])
            groups = {}
            for v in VARIANTS:
                groups.setdefault(outs[v], []).append(v)
            split = " | ".join(sorted("+".join(vs) for vs in groups.values()))
            sig = "feature-divergence:%s:%s" % ("+".join(facts) if facts else "no-known-fact", split)
            by_sig[sig] = by_sig.get(sig, 0) + 1
            if sum(1 for x in violations if x["signature"] == sig) < 3:
                violations.append({"signature": sig, "clause": "outcome-streams", "case": rec["case"],
                                   "detail": {"argv": rec["argv"], "vector": rec["vector"],
                                              "facts": facts, "outcomes": outs}})
    merged = {"evaluations": executions, "counters": {"lines_compared": compared,
                                                       "variants": len(VARIANTS),
                                                       **{"outcome:" + c: n for c, n in classes.items()}},
              "maxima": {}, "inconclusive": {}, "by_signature": by_sig,
              "violation_count": sum(by_sig.values()), "samples": samples,
              "violations": violations, "cases_done": cases, "hooks": False}
    return lib.finish(prop, tier, seed, bins["full"], merged, len(distinct), cases, t0)


def c20_replay(prop, r):
    for v in VARIANTS:
        b = lib.build(v)
        out = os.path.join(lib.VERIF, "work", "replay.%s.jsonl" % v)
        os.makedirs(os.path.dirname(out), exist_ok=True)
        subprocess.run([b, "emit", "--seed", str(r["seed"]), "--only-case", str(r["case"]),
                        "--out", out], env=lib.ENV, stdout=subprocess.DEVNULL)
        lines = open(out).read().splitlines()
        vec = r["detail"].get("vector", 0)
        lib.say("%-9s %s" % (v, json.loads(lines[vec])["outcome"][:600]))
    outs = set()
    for v in VARIANTS:
        lines = open(os.path.join(lib.VERIF, "work", "replay.%s.jsonl" % v)).read().splitlines()
        outs.add(json.loads(lines[r["detail"].get("vector", 0)])["outcome"])
    if len(outs) > 1:
        return 1
    return 0
