#!/bin/bash
# confirm_script <ID>f : demo.sh exits 1 with change, 0 without; suite 547 with change
n=$1; wt=/tmp/mut/$n; cd $wt || exit 2
git checkout -- src bpaf_derive; git apply OUT/patch.diff || { echo "patch fails"; exit 1; }
bash OUT/demo.sh > /tmp/mut/$n.demo_with.log 2>&1; with=$?
git apply -R OUT/patch.diff
bash OUT/demo.sh > /tmp/mut/$n.demo_without.log 2>&1; without=$?
git apply OUT/patch.diff
suite=$(CARGO_NET_OFFLINE=true cargo nextest run --workspace --no-fail-fast --tool-config-file pb:/w/lib/nextest.toml --profile pb --test-threads 8 --offline 2>&1 | grep -o "[0-9]* tests run: [0-9]* passed, [0-9]* failed" | tail -1)
echo "with=$with without=$without suite=$suite"
