"""Driver library for bin/check: build, shard, merge, known findings, evidence, verdict lines."""
import glob
import json
import os
import shutil
import subprocess
import sys
import time

VERIF = os.path.dirname(os.path.dirname(os.path.abspath(__file__)))
# background runs (`vp run --with-repo`) get a private snapshot of the repository
REPO = os.environ.get("VP_RUN_REPO") or "/repo"
HARNESS = os.path.join(VERIF, "harness")


def harness_dir():
    """The harness crate; when the repository under test is not /repo, a copy whose path
    dependency points at it."""
    if REPO == "/repo":
        return HARNESS
    alt = os.path.join(VERIF, "work", "harness-alt")
    shutil.rmtree(alt, ignore_errors=True)
    shutil.copytree(HARNESS, alt)
    m = os.path.join(alt, "Cargo.toml")
    with open(m) as f:
        t = f.read()
    with open(m, "w") as f:
        f.write(t.replace('path = "/repo"', 'path = "%s"' % REPO))
    return alt
NSHARDS = int(os.environ.get("VERIF_SHARDS", "16"))

ENV = dict(os.environ)
ENV["CARGO_NET_OFFLINE"] = "true"
ENV.setdefault("CARGO_TERM_COLOR", "never")

# ------------------------------------------------------------------------------------------
# per-property configuration: budgets are in cases (never in seconds)

from props_table import PROPS  # noqa: E402


def say(msg):
    print(msg, flush=True)


def variant_features(variant):
    return {
        "full": ("full", True),
        "none": ("", False),
        "ac": ("ac", False),
        "acdocbat": ("ac,doc,bat", False),
        "dull": ("dull", False),
        "bright": ("bright", False),
        "all": ("full,dull", False),
    }[variant]


def build(variant="full"):
    """Build one harness variant from /repo's working tree; returns the binary path."""
    feats, hooks = variant_features(variant)
    target = os.path.join(VERIF, "target", variant)
    env = dict(ENV)
    env["CARGO_TARGET_DIR"] = target
    env["RUSTFLAGS"] = "--cfg bpaf_verif" if hooks else ""
    cmd = ["cargo", "build", "--release", "--offline", "--manifest-path",
           os.path.join(harness_dir(), "Cargo.toml")]
    if feats:
        cmd += ["--features", feats]
    t0 = time.time()
    p = subprocess.run(cmd, env=env, stdout=subprocess.PIPE, stderr=subprocess.STDOUT, text=True)
    if p.returncode != 0:
        sys.stderr.write(p.stdout[-6000:])
        return None
    say("built harness variant %s in %.1fs" % (variant, time.time() - t0))
    return os.path.join(target, "release", "bpaf-harness")


def workdir(prop):
    d = os.path.join(VERIF, "work", prop)
    shutil.rmtree(d, ignore_errors=True)
    os.makedirs(d, exist_ok=True)
    return d


def run_shards(binary, prop, tier, seed, cases, wd, extra_env=None, timeout=None):
    """Launch NSHARDS single-threaded shard processes; returns (summaries, died, timed_out)."""
    env = dict(ENV)
    # declared environment variables of generated definitions must start unset
    for k in list(env):
        if k.startswith("BPAF_VERIF_ENV"):
            del env[k]
    if extra_env:
        env.update(extra_env)
    procs = []
    for k in range(NSHARDS):
        out = os.path.join(wd, "shard%d" % k)
        cmd = [binary, "run", "--prop", prop, "--seed", str(seed), "--shard",
               "%d/%d" % (k, NSHARDS), "--cases", str(cases), "--tier", tier, "--out", out]
        errf = open(out + ".stderr", "w")
        procs.append((k, out, subprocess.Popen(cmd, env=env, stdout=subprocess.DEVNULL,
                                               stderr=errf, cwd=wd), errf))
    deadline = time.time() + (timeout or (1800 if tier == "quick" else 6 * 3600))
    summaries, died, timed_out = [], [], []
    for k, out, p, errf in procs:
        try:
            rc = p.wait(timeout=max(1, deadline - time.time()))
        except subprocess.TimeoutExpired:
            p.kill()
            p.wait()
            timed_out.append(k)
            errf.close()
            continue
        errf.close()
        if os.path.exists(out + ".json") and rc in (0, 1):
            with open(out + ".json") as f:
                summaries.append(json.load(f))
        else:
            last = ""
            try:
                last = open(out + ".progress").read().strip()
            except OSError:
                pass
            tail = ""
            try:
                tail = open(out + ".stderr").read()[-2000:]
            except OSError:
                pass
            died.append({"shard": k, "returncode": rc, "progress": last, "stderr": tail})
    return summaries, died, timed_out


def merge(summaries):
    m = {"evaluations": 0, "counters": {}, "maxima": {}, "inconclusive": {}, "by_signature": {},
         "violation_count": 0, "samples": [], "violations": [], "cases_done": 0, "hooks": False}
    for s in summaries:
        m["evaluations"] += s["evaluations"]
        m["cases_done"] += s["cases_done"]
        m["violation_count"] += s["violation_count"]
        m["hooks"] = m["hooks"] or s.get("hooks", False)
        for k, v in s["counters"].items():
            m["counters"][k] = m["counters"].get(k, 0) + v
        for k, v in s["inconclusive"].items():
            m["inconclusive"][k] = m["inconclusive"].get(k, 0) + v
        for k, v in s["by_signature"].items():
            m["by_signature"][k] = m["by_signature"].get(k, 0) + v
        for k, v in s["maxima"].items():
            m["maxima"][k] = max(m["maxima"].get(k, 0), v)
        m["samples"].extend(s["samples"][:1])
        m["violations"].extend(s["violations"])
    m["samples"] = m["samples"][:6]
    return m


def count_distinct(binary, wd, suffix):
    files = sorted(glob.glob(os.path.join(wd, "shard*." + suffix)))
    if not files:
        return 0
    p = subprocess.run([binary, "merge"] + files, stdout=subprocess.PIPE, text=True)
    try:
        return int(p.stdout.strip())
    except ValueError:
        return 0


def load_known():
    path = os.path.join(VERIF, "known_findings.json")
    if not os.path.exists(path):
        return []
    with open(path) as f:
        return json.load(f)["findings"]


def witness(binary, name, variant=None):
    """True if the named canonical witness still shows the defect."""
    cmd = [binary, "witness", name]
    if variant:
        # feature-dependent findings are witnessed in the build variant where they show
        b = build(variant)
        if b is None:
            raise RuntimeError("build of variant %s failed" % variant)
        cmd = [b, "emit-witness", name]
    p = subprocess.run(cmd, stdout=subprocess.DEVNULL,
                       stderr=subprocess.PIPE, text=True, env=ENV)
    if p.returncode == 10:
        return True
    if p.returncode == 0:
        return False
    raise RuntimeError("witness %s: harness error rc=%s %s" % (name, p.returncode, p.stderr[-500:]))


def write_replays(prop, tier, seed, violations):
    d = os.path.join(VERIF, "replays", prop)
    shutil.rmtree(d, ignore_errors=True)
    os.makedirs(d, exist_ok=True)
    paths = []
    for n, v in enumerate(violations):
        path = os.path.join(d, "%d.json" % n)
        with open(path, "w") as f:
            json.dump({"property": prop, "tier": tier, "seed": seed, "case": v.get("case"),
                       "signature": v["signature"], "clause": v.get("clause"),
                       "detail": v.get("detail")}, f, indent=1, ensure_ascii=False)
        paths.append((v, path))
    return paths


def write_evidence(prop, tier, seed, coverage, wall, violations, assumptions):
    ev = {
        "property_id": prop,
        "tier": tier,
        "seed": seed,
        "level": "exploration",
        "coverage": coverage,
        "assumptions": assumptions,
        "wall_s": round(wall, 2),
        "violations": violations,
    }
    os.makedirs(os.path.join(VERIF, "evidence"), exist_ok=True)
    with open(os.path.join(VERIF, "evidence", prop + ".json"), "w") as f:
        json.dump(ev, f, indent=1, ensure_ascii=False)


def finish(prop, tier, seed, binary, merged, distinct, definitions, t0, extra_cov=None,
           died=None, timed_out=None):
    """Common tail of every check: known findings, evidence, verdict lines, exit code."""
    cfg = PROPS[prop]
    known = [k for k in load_known() if k["property"] == prop]
    open_known = {k["signature"]: k for k in known if not k.get("fixed")}
    fixed_known = [k for k in known if k.get("fixed")]

    unlisted, listed = [], {}
    for v in merged["violations"]:
        if v["signature"] in open_known:
            listed.setdefault(v["signature"], v)
        else:
            unlisted.append(v)
    # signatures seen but whose witnesses were not kept
    for sig, n in merged["by_signature"].items():
        if sig not in open_known and not any(v["signature"] == sig for v in unlisted):
            unlisted.append({"signature": sig, "clause": "?", "case": None,
                             "detail": {"note": "%d occurrences, witness not retained" % n}})

    # canonical witnesses: open findings are reported while they reproduce; fixed ones must not
    known_seen = []
    for k in open_known.values():
        try:
            rep = witness(binary, k["witness"], k.get("witness_variant"))
        except RuntimeError as e:
            say("INCONCLUSIVE property=%s reason=%s" % (prop, e))
            return 2
        if rep:
            say("KNOWN-FINDING: property=%s %s %s" % (prop, k["id"], k["what_fails"]))
            known_seen.append(k["id"])
    for k in fixed_known:
        try:
            rep = witness(binary, k["witness"], k.get("witness_variant"))
        except RuntimeError as e:
            say("INCONCLUSIVE property=%s reason=%s" % (prop, e))
            return 2
        if rep:
            unlisted.append({"signature": "regression:" + k["id"], "clause": "fixed-witness",
                             "case": None, "detail": {"what_failed": k["what_fails"],
                                                      "witness": k["witness"]}})

    if died and cfg.get("death_is_violation"):
        for d in died:
            unlisted.append({"signature": "shard-died", "clause": "total", "case": None,
                             "detail": d})

    paths = write_replays(prop, tier, seed, unlisted)
    wall = time.time() - t0
    coverage = {
        "evaluations": merged["evaluations"],
        "distinct_nontrivial": distinct,
        "rule": cfg["rule"],
        "samples": merged["samples"],
        "definitions": definitions,
        "cases": merged["cases_done"],
        "counters": merged["counters"],
        "maxima": merged["maxima"],
        "inconclusive": merged["inconclusive"],
        "hooks_enabled": merged["hooks"],
        "known_findings_seen": known_seen,
        "known_finding_occurrences": {s: merged["by_signature"].get(s, 0) for s in open_known},
        "violation_signatures": {s: n for s, n in merged["by_signature"].items()
                                 if s not in open_known},
    }
    if extra_cov:
        coverage.update(extra_cov)
    write_evidence(prop, tier, seed, coverage, wall, len(unlisted), cfg["assumptions"])

    for v, path in paths:
        say("VIOLATION property=%s replay=%s" % (prop, path))
        say("  signature=%s clause=%s" % (v["signature"], v.get("clause")))
    if unlisted:
        return 1

    # nothing observed is not "held"
    problems = []
    if timed_out:
        problems.append("watchdog fired for shards %s" % timed_out)
    if died and not cfg.get("death_is_violation"):
        problems.append("shards died: %s" % json.dumps(died)[:600])
    if merged["evaluations"] == 0 or distinct < 2:
        problems.append("nothing observed")
    for key in cfg.get("must_observe", []):
        if merged["counters"].get(key, 0) == 0:
            problems.append("no events for %s" % key)
    if cfg.get("needs_hooks") and not merged["hooks"]:
        problems.append("hooks were not compiled in")
    if cfg.get("needs_hooks") and merged["counters"].get("ledger_checks", 0) == 0:
        problems.append("ledger hook never reached")
    inconc = sum(merged["inconclusive"].values())
    limit = cfg.get("max_inconclusive_ratio", 0.5)
    if merged["evaluations"] and inconc > limit * merged["evaluations"]:
        problems.append("too many inconclusive cases: %d of %d" % (inconc, merged["evaluations"]))
    mvd = merged["inconclusive"].get("model-vs-derivation", 0)
    if mvd > max(2, 0.001 * merged["evaluations"]):
        problems.append("oracles disagree with each other on %d cases (harness bug)" % mvd)
    if problems:
        say("INCONCLUSIVE property=%s reason=%s" % (prop, "; ".join(problems)))
        return 2
    say("OK property=%s tier=%s seed=%d evaluations=%d distinct=%d definitions=%d wall=%.1fs"
        % (prop, tier, seed, merged["evaluations"], distinct, definitions, wall))
    return 0


def check(prop, tier, seed):
    if prop not in PROPS:
        say("INCONCLUSIVE property=%s reason=unknown property" % prop)
        return 2
    cfg = PROPS[prop]
    special = cfg.get("special")
    if special:
        import specials
        return getattr(specials, special)(prop, tier, seed)
    t0 = time.time()
    binary = build("full")
    if binary is None:
        say("INCONCLUSIVE property=%s reason=harness build failed" % prop)
        return 2
    wd = workdir(prop)
    cases = cfg["cases"][tier]
    summaries, died, timed_out = run_shards(binary, prop, tier, seed, cases, wd)
    # the same monitor again in a build with other cargo features of bpaf (fewer cases): what a
    # real process prints also depends on features such as dull-color / bright-color
    for variant in cfg.get("extra_variants", []):
        b2 = build(variant)
        if b2 is None:
            say("INCONCLUSIVE property=%s reason=harness build failed (variant %s)" % (prop, variant))
            return 2
        wd2 = workdir(prop + "-" + variant)
        s2, d2, t2 = run_shards(b2, prop, tier, seed + 7919, max(NSHARDS, cases // 4), wd2)
        for s in s2:
            for v in s["violations"]:
                v["signature"] = "%s-build:%s" % (variant, v["signature"])
            s["by_signature"] = {"%s-build:%s" % (variant, k): n
                                 for k, n in s["by_signature"].items()}
            s["counters"] = {("%s-build:%s" % (variant, k)): n for k, n in s["counters"].items()}
            s["samples"] = []
        summaries += s2
        died += d2
        timed_out += t2
    merged = merge(summaries)
    distinct = count_distinct(binary, wd, "hashes")
    definitions = count_distinct(binary, wd, "defs")
    return finish(prop, tier, seed, binary, merged, distinct, definitions, t0,
                  died=died, timed_out=timed_out)


def replay(prop, path):
    with open(path) as f:
        r = json.load(f)
    if PROPS.get(prop, {}).get("special") in ("c20", "c17"):
        import specials
        rc = getattr(specials, PROPS[prop]["special"] + "_replay")(prop, r)
        if rc == 1:
            say("VIOLATION property=%s replay=%s" % (prop, path))
        return rc
    binary = build("full")
    if binary is None:
        say("INCONCLUSIVE property=%s reason=harness build failed" % prop)
        return 2
    if r.get("case") is None:
        say("replay file carries no case coordinates: %s" % json.dumps(r.get("detail"))[:2000])
        return 2
    cmd = [binary, "run", "--prop", r["property"], "--seed", str(r["seed"]), "--tier",
           r["tier"], "--only-case", str(r["case"]), "--verbose"]
    p = subprocess.run(cmd, env=ENV, stdout=subprocess.DEVNULL, stderr=subprocess.PIPE, text=True)
    sys.stdout.write(p.stderr[-20000:])
    if p.returncode == 1:
        say("VIOLATION property=%s replay=%s" % (prop, path))
        return 1
    say("replay: no violation reproduced for %s" % path)
    return 0 if p.returncode == 0 else 2
